"""Environment pinning shared by the runner (parent) and the workers (children).

Nothing here imports numba / speckit: the variables must be in place before they load.
"""
import hashlib
import os
import shutil
import subprocess
import sys

VERIF = os.path.dirname(os.path.dirname(os.path.abspath(__file__)))
CACHE = os.path.join(VERIF, ".cache")
DEPS = os.path.join(VERIF, ".deps")
WHEELS = "/opt/veriftools/wheels"


def speckit_root():
    """Directory that contains the `speckit` package under test (the working tree of /repo).

    SPECKIT_ROOT may point at a scratch copy; that is only used by the mutation self-test.
    """
    return os.path.abspath(os.environ.get("SPECKIT_ROOT", "/repo"))


def source_hash(root=None):
    root = root or speckit_root()
    h = hashlib.sha256()
    pkg = os.path.join(root, "speckit")
    for name in sorted(os.listdir(pkg)):
        if name.endswith(".py"):
            h.update(name.encode())
            with open(os.path.join(pkg, name), "rb") as fh:
                h.update(fh.read())
    return h.hexdigest()[:16]


def child_env(cudasim=False):
    """Environment for a worker process."""
    env = dict(os.environ)
    root = speckit_root()
    tag = source_hash(root)
    env["PYTHONHASHSEED"] = "0"
    env["PYTHONDONTWRITEBYTECODE"] = "1"
    env["SPECKIT_ROOT"] = root
    env["NUMBA_CACHE_DIR"] = os.path.join(CACHE, "numba-" + tag + ("-sim" if cudasim else ""))
    pp = [root, VERIF]
    if os.path.isdir(DEPS):
        pp.append(DEPS)
    if env.get("PYTHONPATH"):
        pp.append(env["PYTHONPATH"])
    env["PYTHONPATH"] = os.pathsep.join(pp)
    env.setdefault("NUMBA_THREADING_LAYER", "workqueue")
    env.setdefault("OMP_NUM_THREADS", "1")
    env.setdefault("OPENBLAS_NUM_THREADS", "1")
    env.setdefault("MKL_NUM_THREADS", "1")
    env["MPLBACKEND"] = "Agg"
    if cudasim:
        env["NUMBA_ENABLE_CUDASIM"] = "1"
    else:
        env.pop("NUMBA_ENABLE_CUDASIM", None)
    return env


def prune_numba_caches(keep_tag):
    """Remove JIT caches that belong to other versions of the sources."""
    if not os.path.isdir(CACHE):
        return
    for name in os.listdir(CACHE):
        if name.startswith("numba-") and not name.startswith("numba-" + keep_tag):
            shutil.rmtree(os.path.join(CACHE, name), ignore_errors=True)


def ensure_deps(python=sys.executable, verbose=False, modules=("hypothesis", "jsonschema")):
    """Install hypothesis / jsonschema from the offline wheelhouse if they are missing.

    A restore brings back committed files only, so this is repeated lazily by the runner
    (MANIFEST.setup_cmd does the same thing).  Never touches the network.
    """
    os.makedirs(DEPS, exist_ok=True)
    code = (
        "import sys; sys.path.append(%r)\n"
        "missing=[]\n"
        "for m in %r:\n"
        "    try: __import__(m)\n"
        "    except Exception: missing.append(m)\n"
        "print(' '.join(missing))\n" % (DEPS, tuple(modules))
    )
    out = subprocess.run([python, "-c", code], capture_output=True, text=True)
    missing = out.stdout.split()
    ok = True
    for m in missing:
        cmd = [python, "-m", "pip", "install", "--quiet", "--no-index", "--find-links", WHEELS,
               "--target", DEPS, m]
        r = subprocess.run(cmd, capture_output=True, text=True)
        if verbose or r.returncode != 0:
            sys.stderr.write("[setup] %s -> %d\n%s" % (" ".join(cmd), r.returncode, r.stderr[-2000:]))
        ok = ok and r.returncode == 0
    return ok
