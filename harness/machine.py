"""Traced rule-based state machines (Hypothesis stateful testing) with Hypothesis-free replay."""
from hypothesis.stateful import RuleBasedStateMachine, invariant

from .api import Res, V, plain, speckit_frame


class ViolationFound(Exception):
    def __init__(self, desc):
        super().__init__(repr(desc))
        self.desc = desc


class TracedMachine(RuleBasedStateMachine):
    """Base class.  Subclasses write

        @rule(n=st.integers(0, 10))
        def get(self, n): self.step("get", n=n)
        def do_get(self, n): ...            # the real action; may call self.flag(...)
        def check(self): ...                # invariant after every step; may call self.flag(...)
        def summary(self): -> (nontrivial, labels)

    `sink` (set by the worker) receives (trace, Res) at the end of every run and decides whether
    a flagged violation is unlisted (raises ViolationFound so that Hypothesis shrinks the run).
    """

    sink = None  # callable(trace, Res, final) -> list of unlisted violations

    def __init__(self):
        super().__init__()
        self.trace = []
        self.viol = []
        self._reported = 0
        self.broken = False
        self.init_state()

    # -- to be provided by subclasses
    def init_state(self):
        pass

    def check(self):
        pass

    def summary(self):
        return False, []

    # -- plumbing
    def step(self, _rule, /, **kw):
        name = _rule
        if self.broken:
            return
        self.trace.append([name, plain(kw)])
        try:
            getattr(self, "do_" + name)(**kw)
        except ViolationFound:
            raise
        except Exception as exc:  # noqa: BLE001
            where = speckit_frame(exc.__traceback__)
            if where is None:
                raise
            # an exception from the package under test inside a rule is a violation
            self.broken = True
            self.flag("raises", exc=type(exc).__name__, msg=str(exc)[:200], where=where, rule=name)

    def flag(self, clause, **kw):
        self.viol.append(V(clause, step=len(self.trace), **kw))

    def _res(self):
        nontrivial, labels = self.summary()
        return Res(self.viol, nontrivial, labels)

    @invariant()
    def _after_step(self):
        if not self.broken:
            self.check()
        if len(self.viol) > self._reported and type(self).sink is not None:
            self._reported = len(self.viol)
            unlisted = type(self).sink(self.trace, self._res(), False)
            if unlisted:
                raise ViolationFound(unlisted[0])

    def teardown(self):
        try:
            if type(self).sink is not None:
                type(self).sink(self.trace, self._res(), True)
        finally:
            self.cleanup()

    def cleanup(self):
        pass

    @classmethod
    def replay(cls, trace):
        saved = cls.sink
        cls.sink = None
        try:
            m = cls()
            try:
                m.check()
                for name, kw in trace:
                    m.step(name, **kw)
                    if not m.broken:
                        m.check()
                return m._res()
            finally:
                m.cleanup()
        finally:
            cls.sink = saved
