"""Rounding budgets (DESIGN.md section 5).

For a bin with segment length L, frequency omega, window w and record x let
    S = (sum_n |w[n]| * max_k |x_k[n]|)^2      (triangle bound on |X|^2, raw record scale)
    g = min(L, 1/|sin omega|)                  (error growth of the Goertzel recurrence)
second-order statistics:   |impl - ref| <= C * eps * (L * g + K) * S     (cross: sqrt(Sx)*sqrt(Sy); K segments averaged)
fourth-order (M2):         |impl - ref| <= 4 * C * eps * (L * g + K) * Sx * Sy   (and see budget_m2)
"""
import numpy as np

EPS = np.finfo(np.float64).eps
C = 64.0
TINY = 1e-300


def growth(L, omega):
    s = abs(np.sin(omega))
    return float(min(L, 1.0 / s)) if s > 0 else float(L)


def seg_scale(x, starts, L, w, order=-1):
    """S for one channel: (sum_n |w[n]| max_k |x[s_k+n]|)^2.

    With detrending (order>=0) the fitted trend is spread over the whole segment, so the bound
    uses the segment maximum everywhere: ((order+2) * sum|w| * max|x_seg|)^2  (the sup-norm of a
    least-squares polynomial fit of degree<=2 is bounded by a small multiple of max|x|)."""
    starts = np.asarray(starts, dtype=np.int64)
    aw = np.abs(np.asarray(w, dtype=np.float64))
    ax = np.abs(np.asarray(x, dtype=np.float64))
    if len(starts) * L <= 4_000_000:
        idx = starts[:, None] + np.arange(L)[None, :]
        m = ax[idx].max(axis=0)
    else:  # cheap upper bound
        m = np.full(L, ax.max())
    if order >= 0:
        return float((order + 2) * aw.sum() * m.max()) ** 2
    return float(np.dot(aw, m)) ** 2


def budget2(L, omega, S, K=1):
    """K: number of segments averaged (the mean over K values adds up to K ulp of relative error: seen 3e-14 at
    K=34602, L=1 where the recurrence itself contributes nothing)."""
    return C * EPS * (L * growth(L, omega) + K) * S + TINY


def budget4(L, omega, Sx, Sy, K=1):
    return 4.0 * C * EPS * (L * growth(L, omega) + K) * Sx * Sy + TINY


def budget_m2(e, m2_ref, b4):
    """Budget for the scatter statistic M2 = mean_k |Z_k - mean Z|^2 of a backward-stable (two-pass) evaluation.

    If every per-segment product Z_k carries an error of at most e (the second-order budget), the centred values
    change by at most 2e, hence |dM2| <= 4 e sqrt(M2) + 4 e^2 (plus a few ulp of M2).  This is proportional to the
    *scatter*, not to |mean Z|^2: an evaluation as mean|Z|^2 - |mean Z|^2 loses eps*|mean Z|^2 by cancellation and
    exceeds it whenever the segments are nearly identical (strong line, tiny noise).  Never looser than the
    plain fourth-order budget b4."""
    return min(b4, 4.0 * e * (max(m2_ref, 0.0) ** 0.5) + 4.0 * e * e + 1e-13 * max(m2_ref, 0.0) + TINY)


def order0_err(x, starts, L, w, omega):
    """Bound on the error of one segment transform X_k for mean removal (order 0), or None when too large to form.

    Subtracting a mean m' = m + d from samples close to m is exact (Sterbenz), so the evaluated transform is that of
    the exactly centred samples r = x - m minus d * W(omega), W the transform of the window alone.  Hence
        |dX| <= A eps (L g + 2) sum|w| max|r|                      (recurrence on the centred, windowed samples)
               + |d| (|W(omega)| + A eps (L g + 2) sum|w|),        |d| <= 4 eps L max|x|   (summation error of the mean)
    - proportional to the size of the *centred* samples except for the part of the mean's own rounding that leaks
    through the window.  A = 16.  Calibrated on the repaired tree: worst observed 0.08 of this bound over pedestals up
    to 1e13 times the signal (Numba and NumPy kernels, smooth and random windows)."""
    starts = np.asarray(starts, dtype=np.int64)
    if len(starts) * L > 300_000:      # beyond this the reference itself is evaluated in float64 (refs.segment_dfts)
        return None
    w = np.asarray(w, dtype=np.float64)
    idx = starts[:, None] + np.arange(L)[None, :]
    seg = np.asarray(x, dtype=np.float64)[idx].astype(np.longdouble)
    r = seg - seg.mean(axis=1, keepdims=True)
    rmax, xmax = float(np.abs(r).max()), float(np.abs(seg).max())
    n = np.arange(L, dtype=np.longdouble)
    Ww = float(abs(np.sum(w.astype(np.longdouble) * np.cos(omega * n)) - 1j * np.sum(w.astype(np.longdouble) * np.sin(omega * n))))
    a = float(np.abs(w).sum())
    rec = 16.0 * EPS * (L * growth(L, omega) + 2.0) * a
    d = 4.0 * EPS * L * xmax
    return rec * rmax + d * (Ww + rec)


def budgets(x, y, starts, L, w, omega, order, ref):
    """(bx, by, bxy, b4) for one bin: the raw-scale budgets of the module docstring, and for order 0 the tighter of
    those and the centred-scale bound of `order0_err` (2|X| E + E^2 per power, |X| Ey + |Y| Ex + Ex Ey for the cross
    term, plus K eps of the value for the average over K segments)."""
    K = len(starts)
    Sx = seg_scale(x, starts, L, w, order)
    Sy = Sx if y is None else seg_scale(y, starts, L, w, order)
    bx, by = budget2(L, omega, Sx, K), budget2(L, omega, Sy, K)
    bxy = budget2(L, omega, Sx ** 0.5 * Sy ** 0.5, K)
    b4 = budget4(L, omega, Sx, Sy, K)
    if order == 0:
        ex = order0_err(x, starts, L, w, omega)
        ey = ex if y is None else order0_err(y, starts, L, w, omega)
        if ex is not None and ey is not None:
            ax, ay = max(float(ref["XX"]), 0.0) ** 0.5, max(float(ref["YY"]), 0.0) ** 0.5
            avg = 4.0 * EPS * K
            bx = min(bx, 2 * ax * ex + ex * ex + avg * ax * ax + TINY)
            by = min(by, 2 * ay * ey + ey * ey + avg * ay * ay + TINY)
            bxy = min(bxy, ax * ey + ay * ex + ex * ey + avg * ax * ay + TINY)
    return bx, by, bxy, b4
