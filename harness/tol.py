"""Rounding budgets (DESIGN.md section 5).

For a bin with segment length L, frequency omega, window w and record x let
    S = (sum_n |w[n]| * max_k |x_k[n]|)^2      (triangle bound on |X|^2, raw record scale)
    g = min(L, 1/|sin omega|)                  (error growth of the Goertzel recurrence)
second-order statistics:   |impl - ref| <= C * eps * (L * g + K) * S     (cross: sqrt(Sx)*sqrt(Sy); K segments averaged)
fourth-order (M2):         |impl - ref| <= 4 * C * eps * (L * g + K) * Sx * Sy   (and see budget_m2)
"""
import numpy as np

EPS = np.finfo(np.float64).eps
C = 64.0
TINY = 1e-300


def growth(L, omega):
    s = abs(np.sin(omega))
    return float(min(L, 1.0 / s)) if s > 0 else float(L)


def seg_scale(x, starts, L, w, order=-1):
    """S for one channel: (sum_n |w[n]| max_k |x[s_k+n]|)^2.

    With detrending (order>=0) the fitted trend is spread over the whole segment, so the bound
    uses the segment maximum everywhere: ((order+2) * sum|w| * max|x_seg|)^2  (the sup-norm of a
    least-squares polynomial fit of degree<=2 is bounded by a small multiple of max|x|)."""
    starts = np.asarray(starts, dtype=np.int64)
    aw = np.abs(np.asarray(w, dtype=np.float64))
    ax = np.abs(np.asarray(x, dtype=np.float64))
    if len(starts) * L <= 4_000_000:
        idx = starts[:, None] + np.arange(L)[None, :]
        m = ax[idx].max(axis=0)
    else:  # cheap upper bound
        m = np.full(L, ax.max())
    if order >= 0:
        return float((order + 2) * aw.sum() * m.max()) ** 2
    return float(np.dot(aw, m)) ** 2


def budget2(L, omega, S, K=1):
    """K: number of segments averaged (the mean over K values adds up to K ulp of relative error: seen 3e-14 at
    K=34602, L=1 where the recurrence itself contributes nothing)."""
    return C * EPS * (L * growth(L, omega) + K) * S + TINY


def budget4(L, omega, Sx, Sy, K=1):
    return 4.0 * C * EPS * (L * growth(L, omega) + K) * Sx * Sy + TINY


def budget_m2(e, m2_ref, b4):
    """Budget for the scatter statistic M2 = mean_k |Z_k - mean Z|^2 of a backward-stable (two-pass) evaluation.

    If every per-segment product Z_k carries an error of at most e (the second-order budget), the centred values
    change by at most 2e, hence |dM2| <= 4 e sqrt(M2) + 4 e^2 (plus a few ulp of M2).  This is proportional to the
    *scatter*, not to |mean Z|^2: an evaluation as mean|Z|^2 - |mean Z|^2 loses eps*|mean Z|^2 by cancellation and
    exceeds it whenever the segments are nearly identical (strong line, tiny noise).  Never looser than the
    plain fourth-order budget b4."""
    return min(b4, 4.0 * e * (max(m2_ref, 0.0) ** 0.5) + 4.0 * e * e + 1e-13 * max(m2_ref, 0.0) + TINY)
