"""Compile (or load from the cache) every JIT kernel once, before shards start."""
import numpy as np


def run(envtag="default"):
    from speckit import core
    x = np.linspace(0.0, 1.0, 16)
    y = x[::-1].copy()
    st = np.array([0, 4], dtype=np.int64)
    w = np.ones(8)
    for order in (1, 2):
        Q = core._build_Q(8, order)
        core._stats_poly_auto(x, st, 8, w, 0.3, Q)
        core._stats_poly_csd(x, y, st, 8, w, 0.3, Q)
    core._stats_win_only_auto(x, st, 8, w, 0.3)
    core._stats_win_only_csd(x, y, st, 8, w, 0.3)
    core._stats_detrend0_auto(x, st, 8, w, 0.3)
    core._stats_detrend0_csd(x, y, st, 8, w, 0.3)
    if envtag == "cudasim":
        from speckit import core_cuda as cc
        cc._stats_win_only_csd_cuda(x, y, st, 8, w, 0.3)
