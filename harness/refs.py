"""Reference models.  Nothing here imports speckit."""
from fractions import Fraction

import numpy as np


# ---------------------------------------------------------------- R-DFT
def detrend_matrix(L, order):
    """Orthonormal basis (L x p) of polynomials of degree <= min(order, L-1) on L equispaced
    points, built from the Legendre Vandermonde (independent of the implementation's monomial QR)."""
    if order < 0:
        return None
    deg = min(order, L - 1)
    t = np.linspace(-1.0, 1.0, L) if L > 1 else np.zeros(1)
    Vm = np.polynomial.legendre.legvander(t, deg)
    Q, _ = np.linalg.qr(Vm)
    return Q


def segment_dfts(x, starts, L, w, omega, order):
    """X_k(omega) = sum_n w[n] (x_k[n] - trend_k[n]) exp(-i omega n), evaluated directly."""
    x = np.asarray(x, dtype=np.float64)
    starts = np.asarray(starts, dtype=np.int64)
    n = np.arange(L)
    idx = starts[:, None] + n[None, :]
    ft = np.longdouble if idx.size <= 300000 else np.float64   # extended precision where affordable
    seg = x[idx].astype(ft)
    if order == 0:
        # mean removal evaluated directly in the working precision (the float64 QR basis below carries a relative
        # error of 1e-16 of the *raw* level, which matters for a pedestal far above the signal)
        seg = seg - seg.mean(axis=1, keepdims=True)
    elif order >= 0:
        Q = detrend_matrix(L, order).astype(ft)
        seg = seg - (seg @ Q) @ Q.T
    ph = (ft(omega) * n.astype(ft))
    wl = np.asarray(w, dtype=ft)
    sw = seg * wl[None, :]
    re = sw @ np.cos(ph)
    im = -(sw @ np.sin(ph))
    return np.asarray(re, dtype=np.float64) + 1j * np.asarray(im, dtype=np.float64)


def dft_stats(x, y, starts, L, w, omega, order):
    """-> dict XX, YY, XY (complex), M2 and the per-segment cross products Z_k = X_k conj(Y_k).
    y=None: auto mode (Y:=X)."""
    X = segment_dfts(x, starts, L, w, omega, order)
    if y is None:
        Y = X
        Z = (np.abs(X) ** 2).astype(np.complex128)
    else:
        Y = segment_dfts(y, starts, L, w, omega, order)
        Z = X * np.conj(Y)
    K = len(Z)
    mu = Z.mean()
    M2 = float(np.mean(np.abs(Z - mu) ** 2)) if K >= 2 else 0.0
    return {"XX": float(np.mean(np.abs(X) ** 2)), "YY": float(np.mean(np.abs(Y) ** 2)),
            "XY": complex(mu), "M2": M2, "Z": Z, "X": X, "Y": Y}


# ---------------------------------------------------------------- windows
def kaiser_alpha(psll):
    """The cubic alpha(psll) of the LTPDA/LPSD papers, re-typed."""
    x = psll / 100.0
    return ((0.0889732 * x - 0.493285) * x + 4.71469) * x - 0.0821377


def kaiser_window(L, psll):
    """DFT-even Kaiser window with shape alpha(psll)*pi."""
    return np.kaiser(L + 1, kaiser_alpha(psll) * np.pi)[:-1]


# ---------------------------------------------------------------- R-LAGRANGE
def lagrange_taps_exact(order, frac):
    """Lagrange weights on nodes -(h-1)..h (h=(order+1)/2) at abscissa `frac`, exact rationals.
    `frac` is a Fraction (or float converted exactly)."""
    frac = Fraction(frac)
    h = (order + 1) // 2
    nodes = list(range(-(h - 1), h + 1))
    taps = []
    for i in nodes:
        num, den = Fraction(1), Fraction(1)
        for j in nodes:
            if j != i:
                num *= (frac - j)
                den *= (i - j)
        taps.append(num / den)
    return nodes, taps


# ---------------------------------------------------------------- R-BP (Bendat & Piersol)
def bp_errors(g2, n):
    g2 = np.asarray(g2, dtype=np.float64)
    n = np.asarray(n, dtype=np.float64)
    out = {
        "Gxx_error": 1.0 / np.sqrt(n),
        "Gyy_error": 1.0 / np.sqrt(n),
        "Gxy_error": 1.0 / np.sqrt(g2 * n),
        "Hxy_mag_error": np.sqrt(1.0 - g2) / np.sqrt(2.0 * g2 * n),
        "Hxy_rad_error": np.arcsin(np.sqrt(1.0 - g2)) / np.sqrt(2.0 * g2 * n),
        "coh_error": np.sqrt(2.0) * (1.0 - g2) / np.sqrt(g2 * n),
    }
    out["Hxy_deg_error"] = out["Hxy_rad_error"] * 180.0 / np.pi
    return out


# ---------------------------------------------------------------- R-TRAP
def trap_rms(f, asd, band=None):
    f = np.asarray(f, dtype=np.float64)
    a = np.asarray(asd, dtype=np.float64)
    if band is not None:
        lo, hi = band
        m = (f >= lo) & (f <= hi)
        f, a = f[m], a[m]
    if len(f) < 2:
        return 0.0
    p = a * a
    return float(np.sqrt(np.sum(0.5 * (p[1:] + p[:-1]) * np.diff(f))))
