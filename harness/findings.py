"""KNOWN_FINDINGS.txt: parser and signature predicates.

File format (line oriented, '#' comments):

    known: property=<id> sig=<signature> <what fails>
    fixed: property=<id> <commit> <what failed>

A signature names a predicate below over a *violation descriptor* (the dict an oracle returns:
clause + the parameters that locate the failure).  It identifies the specific failing
input class / call site, not the property, so a different violation of the same property is
still reported.  `fixed:` lines are documentation only and suppress nothing.  Nothing is ever
appended to the file at run time.
"""
import os
import re

from .env import VERIF

PATH = os.path.join(VERIF, "KNOWN_FINDINGS.txt")


# No open findings at present: every defect found so far was repaired by a `fix:` commit in /repo
# (see the `fixed:` lines of KNOWN_FINDINGS.txt).  A new entry needs a predicate here, e.g.
#   def _sig(d): return d.get("clause") == "..." and d.get("sched") == "..." and ...
SIGS = {}


class Known:
    def __init__(self, prop, sig, text):
        self.prop, self.sig, self.text = prop, sig, text
        self.pred = SIGS[sig]
        self.hits = 0


def load(prop=None, path=PATH):
    out = []
    if not os.path.exists(path):
        return out
    with open(path) as fh:
        for line in fh:
            line = line.strip()
            if not line or line.startswith("#"):
                continue
            m = re.match(r"known:\s+property=(\S+)\s+sig=(\S+)\s+(.*)$", line)
            if m:
                if prop is None or m.group(1) == prop:
                    if m.group(2) not in SIGS:
                        raise RuntimeError("KNOWN_FINDINGS.txt names unknown signature %s" % m.group(2))
                    out.append(Known(m.group(1), m.group(2), m.group(3)))
                continue
            if line.startswith("fixed:"):
                continue
            raise RuntimeError("KNOWN_FINDINGS.txt: cannot parse line: %r" % line)
    return out


def split(known, viols):
    """-> (unlisted violations, number matched by a known finding)."""
    unlisted, matched = [], 0
    for d in viols:
        for k in known:
            if k.pred(d):
                k.hits += 1
                matched += 1
                break
        else:
            unlisted.append(d)
    return unlisted, matched
