"""MANIFEST.setup_cmd:  /venv/bin/python -m harness.setup   (offline; wheelhouse only)."""
import sys

from . import env

if __name__ == "__main__":
    ok = env.ensure_deps(verbose=True)
    print("setup: hypothesis/jsonschema %s" % ("available" if ok else "MISSING"))
    sys.exit(0 if ok else 1)
