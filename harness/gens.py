"""Shared Hypothesis strategies (DESIGN.md section 3).  Cases are JSON-able descriptions;
`materialise*` turns them into arrays.  Bulk randomness comes from numpy generators whose
integer seed is drawn by Hypothesis and stored in the case."""
import math

import numpy as np
from hypothesis import strategies as st

# ------------------------------------------------------------------ records
BULK_KINDS = ["noise", "ar1", "ramp", "offset", "sines", "const", "zeros", "impulse", "line", "line"]
SPECIAL = [0.0, 1.0, -1.0, 1e-30, -1e-30, 0.5, 1e6, -1e6, 3.0]


def small_values(n):
    # magnitude domain {0} U [1e-60, 1e60]: denormal-scale samples make fourth-order products underflow (float64, not SpecKit)
    elem = st.one_of(st.sampled_from(SPECIAL), st.floats(-1e3, 1e3, allow_nan=False, width=64).map(lambda v: 0.0 if abs(v) < 1e-60 else v))
    return st.lists(elem, min_size=n, max_size=n)


@st.composite
def record(draw, N, kinds=None, allow_list=True, scale=True):
    """A single-channel record description of length N."""
    if allow_list and N <= 48 and draw(st.integers(0, 3)) == 0:
        return {"kind": "list", "values": draw(small_values(N))}
    kind = draw(st.sampled_from(kinds or BULK_KINDS))
    d = {"kind": kind, "seed": draw(st.integers(0, 2 ** 31 - 1)), "N": N}
    if scale:
        d["scale"] = draw(st.sampled_from([1.0, 1.0, 1.0, 1e-3, 1e3, 1e-20, 1e20]))
    if kind == "ar1":
        d["rho"] = draw(st.sampled_from([0.5, 0.9, 0.99, -0.7]))
    if kind == "sines":
        d["freqs"] = draw(st.lists(st.floats(0.001, 0.499), min_size=1, max_size=3))
    if kind == "offset":
        d["offset"] = draw(st.sampled_from([1.0, 1e3, 1e6, -1e6, 1e9, 1e12, -1e12]))   # up to a pedestal 1e12 times the signal
    if kind == "ramp":
        d["slope"] = draw(st.sampled_from([1e-3, 1.0, -0.1, 10.0]))
    if kind == "line":
        # a strong stable line (or a constant, f=0) with a tiny noise floor: per-segment products scatter very
        # little around a large mean (cancellation-prone statistics, negative-variance risks)
        d["f"] = draw(st.one_of(st.just(0.0), st.floats(0.01, 0.49)))
        d["floor"] = draw(st.sampled_from([0.0, 1e-12, 1e-9, 1e-6, 1e-3]))
    return d


def materialise(d):
    if d["kind"] == "list":
        return np.asarray(d["values"], dtype=np.float64)
    N = int(d["N"])
    rng = np.random.default_rng(int(d["seed"]))
    k = d["kind"]
    n = np.arange(N, dtype=np.float64)
    if k == "noise":
        x = rng.standard_normal(N)
    elif k == "ar1":
        from scipy.signal import lfilter
        x = lfilter([1.0], [1.0, -float(d["rho"])], rng.standard_normal(N))
    elif k == "ramp":
        x = float(d["slope"]) * n + rng.standard_normal(N)
    elif k == "offset":
        x = float(d["offset"]) + rng.standard_normal(N)
    elif k == "sines":
        x = 0.01 * rng.standard_normal(N)
        for f in d["freqs"]:
            x = x + np.sin(2 * np.pi * float(f) * n + rng.uniform(0, 2 * np.pi))
    elif k == "line":
        x = np.cos(2 * np.pi * float(d["f"]) * n + rng.uniform(0, 2 * np.pi)) + float(d["floor"]) * rng.standard_normal(N)
        if float(d["f"]) == 0.0:
            x = 1.0 + float(d["floor"]) * rng.standard_normal(N)
    elif k == "const":
        x = np.full(N, float(rng.integers(-3, 4)) or 1.5)
    elif k == "zeros":
        x = np.zeros(N)
    elif k == "impulse":
        x = np.zeros(N)
        x[int(rng.integers(0, N))] = 1.0
    else:
        raise ValueError(k)
    return np.ascontiguousarray(x * float(d.get("scale", 1.0)), dtype=np.float64)


REL_KINDS = ["indep", "gain", "delay", "same", "neg", "yzero", "partial", "xzero"]


@st.composite
def pair(draw, N, rel_kinds=None, **kw):
    """Two-channel record description: x plus a relation that defines y."""
    x = draw(record(N, **kw))
    rel = draw(st.sampled_from(rel_kinds or REL_KINDS))
    d = {"x": x, "rel": rel}
    if rel in ("indep", "partial"):
        d["yseed"] = draw(st.integers(0, 2 ** 31 - 1))
    if rel == "gain":
        d["g"] = draw(st.sampled_from([2.0, -3.0, 1e-3, 1e3, -1.0, 0.5]))
    if rel == "delay":
        d["d"] = draw(st.integers(1, 5))
    if rel == "partial":
        d["c"] = draw(st.sampled_from([0.3, 1.0, 3.0]))
        d["d"] = draw(st.integers(0, 3))
    return d


def materialise_pair(d):
    x = materialise(d["x"])
    N = len(x)
    rel = d["rel"]
    sc = float(np.max(np.abs(x))) or 1.0
    if rel == "indep":
        y = np.random.default_rng(int(d["yseed"])).standard_normal(N) * sc
    elif rel == "gain":
        y = float(d["g"]) * x
    elif rel == "delay":
        k = int(d["d"])
        y = np.concatenate([np.zeros(k), x[:-k]]) if k < N else np.zeros(N)
    elif rel == "same":
        y = x.copy()
    elif rel == "neg":
        y = -x
    elif rel == "yzero":
        y = np.zeros(N)
    elif rel == "xzero":
        y = x
        x = np.zeros(N)
    elif rel == "partial":
        k = int(d["d"])
        xs = np.concatenate([np.zeros(k), x[:-k]]) if 0 < k < N else x
        y = xs + float(d["c"]) * sc * np.random.default_rng(int(d["yseed"])).standard_normal(N)
    else:
        raise ValueError(rel)
    return x, np.ascontiguousarray(y, dtype=np.float64)


# ------------------------------------------------------------------ windows (kernel level)
@st.composite
def window_vec(draw, L):
    kind = draw(st.sampled_from(["ones", "hann", "kaiser", "signed", "zeros_some", "list"]))
    d = {"kind": kind, "L": L}
    if kind == "kaiser":
        d["psll"] = draw(st.sampled_from([30, 70, 120, 200]))
    if kind in ("signed", "zeros_some"):
        d["seed"] = draw(st.integers(0, 2 ** 31 - 1))
    if kind == "list":
        if L <= 24:
            d["values"] = draw(st.lists(st.floats(-2, 2, allow_nan=False).map(lambda v: 0.0 if abs(v) < 1e-6 else v), min_size=L, max_size=L))
        else:
            d["kind"] = "hann"
    return d


def materialise_window(d):
    from .refs import kaiser_window
    L = int(d["L"])
    k = d["kind"]
    if k == "ones":
        return np.ones(L)
    if k == "hann":
        return np.hanning(L) if L > 2 else np.ones(L)
    if k == "kaiser":
        return kaiser_window(L, d["psll"])
    if k == "signed":
        return np.random.default_rng(int(d["seed"])).uniform(-1, 1, L)
    if k == "zeros_some":
        r = np.random.default_rng(int(d["seed"]))
        w = r.uniform(0, 1, L)
        w[r.uniform(0, 1, L) < 0.3] = 0.0
        return w
    if k == "list":
        return np.asarray(d["values"], dtype=np.float64)
    raise ValueError(k)


# ------------------------------------------------------------------ frequencies
@st.composite
def omega(draw, L):
    kind = draw(st.sampled_from(["zero", "pi", "intbin", "intbin", "fracbin", "fracbin", "fracbin", "uniform",
                                 "uniform", "tiny", "nearpi"]))
    if kind == "zero":
        return 0.0
    if kind == "pi":
        return math.pi
    if kind == "intbin":
        k = draw(st.integers(0, max(0, L // 2)))
        return 2 * math.pi * k / L
    if kind == "fracbin":
        k = draw(st.floats(0, max(0.5, L / 2.0)))
        return min(math.pi, 2 * math.pi * k / L)
    if kind == "uniform":
        return draw(st.floats(0, math.pi))
    if kind == "tiny":
        return 1e-7
    return math.pi - 1e-7


# ------------------------------------------------------------------ starts
@st.composite
def starts(draw, N, L, maxK=16):
    hi = N - L
    pat = draw(st.sampled_from(["random", "random", "equal", "extremes", "descending", "even", "progression", "almost_progression",
                                "almost_progression"]))
    K = draw(st.integers(1, maxK))
    if pat in ("progression", "almost_progression"):
        # an arithmetic progression s0 + j*h (what the schedulers emit), and progressions with interior elements moved or
        # swapped while first hop, first and last element stay as they are
        K = max(K, 2)
        h = draw(st.integers(0, max(0, hi // (K - 1))))
        s0 = draw(st.integers(0, hi - h * (K - 1)))
        v = [s0 + j * h for j in range(K)]
        if pat == "almost_progression" and K >= 4:
            for _ in range(draw(st.integers(1, 2))):
                j = draw(st.integers(2, K - 2))
                v[j] = draw(st.integers(0, hi))
            if draw(st.booleans()):
                i, j = draw(st.integers(2, K - 2)), draw(st.integers(2, K - 2))
                v[i], v[j] = v[j], v[i]
        return v
    if pat == "random":
        return draw(st.lists(st.integers(0, hi), min_size=K, max_size=K))
    if pat == "equal":
        return [draw(st.integers(0, hi))] * K
    if pat == "extremes":
        return [0 if i % 2 == 0 else hi for i in range(K)]
    if pat == "descending":
        return sorted(draw(st.lists(st.integers(0, hi), min_size=K, max_size=K)), reverse=True)
    return [int(round(i * hi / max(1, K - 1))) for i in range(K)]


# ------------------------------------------------------------------ scheduler configurations
SCHEDULERS = ["lpsd", "ltf", "vectorized_ltf", "new_ltf"]


def loguniform_int(lo, hi):
    return st.floats(math.log(lo), math.log(hi)).map(lambda v: int(min(hi, max(lo, round(math.exp(v))))))


def loguniform(lo, hi):
    return st.floats(math.log(lo), math.log(hi)).map(lambda v: float(min(hi, max(lo, math.exp(v)))))


KAISER_OLAPS = [0.6613, 0.7058, 0.7961]
RATIONAL_OLAPS = [1.0 / 3.0, 2.0 / 3.0, 0.1, 0.2, 0.3, 0.4, 0.6, 0.7, 0.8, 1.0 / 6.0, 5.0 / 6.0, 1.0 / 7.0]  # kaiser_rov(kaiser_alpha(psll)) for typical psll (approx.)


@st.composite
def sched_config(draw, Nmax=20000, Nmin=8, Jmax=2000):
    N = draw(st.one_of(st.integers(Nmin, min(64, Nmax)), loguniform_int(Nmin, Nmax), loguniform_int(Nmin, Nmax)))
    fs = draw(st.one_of(st.sampled_from([1.0, 2.0, 0.5, 1024.0, 2.0 ** -7, 10.0, 1000.0, 48000.0]),
                        loguniform(1e-3, 1e6)))
    olap = draw(st.one_of(
        st.sampled_from([0.0, 0.25, 0.5, 0.75, 0.9, 0.99, 0.999] + KAISER_OLAPS),
        # rational overlaps that are not binary fractions: exact .5 ties of 1+(N-L)/((1-olap)L) evaluated in
        # floating point land on either side of the tie depending on the association of the expression
        st.sampled_from(RATIONAL_OLAPS),
        st.floats(0.0, 0.95)))
    bhi = N / 2.0
    bmin = draw(st.one_of(st.sampled_from([1.0, 1.0, 1.5, 2.0, 3.7]), st.floats(1.0, max(1.0, bhi * 0.999))))
    if not (bmin < bhi):
        bmin = 1.0
    Lmin = draw(st.one_of(st.sampled_from([1, 1, 2, 3]), loguniform_int(1, N), st.just(N)))
    Lmin = max(1, min(N, Lmin))
    Jdes = draw(st.one_of(st.integers(1, 12), loguniform_int(1, Jmax)))
    Kdes = draw(st.one_of(st.integers(1, 5), loguniform_int(1, 2000)))
    return {"N": N, "fs": fs, "olap": olap, "bmin": float(bmin), "Lmin": int(Lmin), "Jdes": int(Jdes), "Kdes": int(Kdes)}


# ------------------------------------------------------------------ analysis configurations
WIN_NAMES = ["kaiser", "hann", "np.kaiser", "sp.kaiser", "bartlett", "blackman", "hamming", "custom"]


def resolve_window(name):
    """-> (argument for SpectrumAnalyzer(win=...), reference builder f(L, psll) -> vector)."""
    import scipy.signal.windows as sw
    from .refs import kaiser_window
    if name == "kaiser":
        return "kaiser", lambda L, psll: kaiser_window(L, psll)
    if name == "np.kaiser":
        return np.kaiser, lambda L, psll: kaiser_window(L, psll)
    if name == "sp.kaiser":
        return sw.kaiser, lambda L, psll: kaiser_window(L, psll)
    if name == "hann":
        return "hann", lambda L, psll: np.hanning(L)
    if name == "bartlett":
        return np.bartlett, lambda L, psll: np.bartlett(L)
    if name == "blackman":
        return np.blackman, lambda L, psll: np.blackman(L)
    if name == "hamming":
        return np.hamming, lambda L, psll: np.hamming(L)
    if name == "custom":
        return _custom_win, lambda L, psll: _custom_win(L)
    raise ValueError(name)


def _custom_win(L):
    n = np.arange(L)
    return 0.3 + np.sin(np.pi * (n + 0.5) / L) ** 2


@st.composite
def analysis_config(draw, N, schedulers=("ltf", "vectorized_ltf", "new_ltf", "lpsd"), backends=("numba", "numpy"),
                    orders=(-1, 0, 1, 2), Jmax=120, Kmax=60, windows=None, custom=False):
    cfg = {
        "scheduler": draw(st.sampled_from(list(schedulers))),
        "order": draw(st.sampled_from(list(orders))),
        "win": draw(st.sampled_from(windows or WIN_NAMES)),
        "psll": draw(st.sampled_from([200, 200, 150, 100, 60, 30])),
        "olap": draw(st.one_of(st.just("default"), st.sampled_from([0.0, 0.25, 0.5, 0.75]), st.floats(0.0, 0.9))),
        "bmin": draw(st.sampled_from([1.0, 1.0, 1.5, 2.0, 3.0])),
        "Lmin": draw(st.one_of(st.just(1), st.integers(1, max(1, N // 4)))),
        "Jdes": draw(st.integers(5, Jmax)),
        "Kdes": draw(st.integers(1, Kmax)),
        "backend": draw(st.sampled_from(list(backends))),
        # rarely varied call styles: verbose logging, order as a numpy integer, psll=None for non-Kaiser windows,
        # the scheduler given as a callable (the library's own function or a thin user wrapper around it)
        "verbose": draw(st.integers(0, 9)) == 9,
        "np_order": draw(st.integers(0, 3)) == 3,
        "psll_none": draw(st.integers(0, 3)) == 3,
        "sched_as": draw(st.sampled_from(["name", "name", "name", "function", "wrapper"])),
        # numeric arguments given as numpy scalars / python ints with the same value
        "arg_types": draw(st.sampled_from(["plain", "plain", "plain", "np_ints", "np_floats", "py_ints"])),
    }
    if not (cfg["bmin"] < N / 2.0):
        cfg["bmin"] = 1.0
    if custom and draw(st.integers(0, 4)) == 4:
        # a user-written scheduler with its own segmentation (the analyzer accepts any in-bounds starts with K = len(D))
        cfg["sched_as"] = "custom"
        cfg["custom"] = {"seed": draw(st.integers(0, 10 ** 6)), "nf": draw(st.integers(2, 10)),
                         "style": draw(st.sampled_from(["shared_LK", "shared_LK", "free"])), "sort": draw(st.booleans())}
    return cfg


def custom_scheduler(spec):
    """A user-supplied scheduler that does not delegate to the library: `nf` bins, segment lengths >= Lmin, any in-bounds
    starts.  Style 'shared_LK': the bins use only one or two (L, K) combinations but each bin has its own starts."""
    def user_plan(**a):
        N, fs, Lmin = int(a["N"]), float(a["fs"]), max(1, int(a["Lmin"]))
        rng = np.random.default_rng(spec["seed"])
        nf = int(spec["nf"])
        if spec["style"] == "shared_LK":
            combos = [(int(rng.integers(Lmin, max(Lmin, N // 2) + 1)), int(rng.integers(1, 9))) for _ in range(int(rng.integers(1, 3)))]
            LK = [combos[int(rng.integers(0, len(combos)))] for _ in range(nf)]
        else:
            LK = [(int(round(np.exp(rng.uniform(np.log(Lmin), np.log(N))))), int(rng.integers(1, 11))) for _ in range(nf)]
        LK = [(min(max(L, Lmin), N), K) for L, K in LK]
        D = []
        for L, K in LK:
            d = rng.integers(0, N - L + 1, size=K)
            D.append(np.sort(d) if spec.get("sort", True) else d)
        f = np.sort(rng.uniform(0.0, 0.5, nf)) * fs
        L = np.array([v[0] for v in LK], dtype=np.int64)
        K = np.array([v[1] for v in LK], dtype=np.int64)
        r = fs / L
        return {"f": f, "r": r, "b": f / r, "L": L, "K": K, "navg": K.copy(), "D": D, "O": np.full(nf, float(a["olap"])), "nf": nf}
    return user_plan


def scheduler_arg(cfg):
    """What is passed as `scheduler=`: the name, the library's function, a delegating wrapper or a custom scheduler."""
    how = cfg.get("sched_as", "name")
    if how == "name" or not isinstance(cfg["scheduler"], str):
        return cfg["scheduler"]
    if how == "custom":
        return custom_scheduler(cfg["custom"])
    from speckit import schedulers as _S
    fn = {"lpsd": _S.lpsd_plan, "ltf": _S.ltf_plan, "vectorized_ltf": _S.vectorized_ltf_plan, "new_ltf": _S.new_ltf_plan}[cfg["scheduler"]]
    if how == "function" or cfg["scheduler"] == "lpsd":
        # (a wrapper around lpsd would be a custom scheduler that ignores Lmin, which the analyzer rightly rejects)
        return fn

    def user_scheduler(**a):       # a user-supplied scheduler that delegates to the library's
        a.pop("num_patch_pts", None)
        return fn(**a)
    return user_scheduler


def make_analyzer(data, fs, cfg, **override):
    from speckit import SpectrumAnalyzer
    c = dict(cfg)
    c.update(override)
    win, _ = resolve_window(c["win"])
    kw = dict(olap=c["olap"], bmin=c["bmin"], Lmin=c["Lmin"], Jdes=c["Jdes"], Kdes=c["Kdes"],
              order=c["order"], psll=c["psll"], win=win, scheduler=c["scheduler"], backend=c["backend"])
    if c.get("np_order"):
        kw["order"] = np.int64(c["order"])
    if c.get("verbose"):
        kw["verbose"] = True
    if c.get("psll_none") and "kaiser" not in c["win"]:
        kw["psll"] = None
    kw["scheduler"] = scheduler_arg(c)
    how = c.get("arg_types", "plain")
    if how == "np_ints":
        kw.update(Lmin=np.int64(kw["Lmin"]), Jdes=np.int32(kw["Jdes"]), Kdes=np.int64(kw["Kdes"]))
    elif how == "np_floats":
        fs = np.float64(fs)
        kw["bmin"] = np.float64(kw["bmin"])
        if not isinstance(kw["olap"], str):
            kw["olap"] = np.float64(kw["olap"])
    elif how == "py_ints":
        if float(fs) == int(fs):
            fs = int(fs)
        if float(kw["bmin"]) == int(kw["bmin"]):
            kw["bmin"] = int(kw["bmin"])
        if not isinstance(kw["olap"], str) and float(kw["olap"]) == 0.0:
            kw["olap"] = 0
    for k in ("band", "force_target_nf"):
        if k in c:
            kw[k] = c[k]
    return SpectrumAnalyzer(data, fs, **kw)
