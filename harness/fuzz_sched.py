"""Coverage-guided fuzzing (atheris / libFuzzer) of the pure-Python schedulers with the C02/C03/C04
oracles inside the target.

    python -m harness.fuzz_sched <PROP> <outdir> <runs> <seed> [corpus: empty|seeded]

Bytes are decoded into an admissible scheduler configuration through FuzzedDataProvider (so the fuzzer
reaches scheduler logic instead of dying in validation).  The semantic oracle is the property module's own
oracle; the first unlisted violation is written to <outdir>/violation.json (case + descriptor) and the
process exits.  Counters are flushed to <outdir>/stats.json (atexit does not run under libFuzzer).
"""
import importlib
import json
import math
import os
import sys

SCHEDS = ["lpsd", "ltf", "vectorized_ltf", "new_ltf"]
OLAPS = [0.0, 0.25, 0.5, 0.75, 0.9, 0.99, 0.999, 0.6613, 0.7058, 0.7961, 1.0 / 3.0, 2.0 / 3.0, 0.1, 0.2, 0.3, 0.4, 0.6, 0.7, 0.8]


FS = [1.0, 2.0, 0.5, 1024.0, 48000.0, 1e-3, 10.0, 1000.0, 0.37, 2.0 ** -7, 1e6, 3.0]


def decode(fdp):
    """Only small integer draws (1-2 bytes each), scheduler first: libFuzzer's inputs are short, and a
    FuzzedDataProvider returns the range minimum once the data is exhausted."""
    sched = SCHEDS[fdp.ConsumeIntInRange(0, 3)]
    n_kind = fdp.ConsumeIntInRange(0, 2)
    if n_kind == 0:
        N = fdp.ConsumeIntInRange(8, 64)
    elif n_kind == 1:
        N = fdp.ConsumeIntInRange(8, 1000)
    else:
        N = fdp.ConsumeIntInRange(8, 20000)
    ok = fdp.ConsumeIntInRange(0, len(OLAPS))
    olap = OLAPS[ok] if ok < len(OLAPS) else fdp.ConsumeIntInRange(0, 950) / 1000.0
    cap = int(max(64, 2e5 * (1.0 - olap)))
    N = max(8, min(N, cap))
    Jk = fdp.ConsumeIntInRange(0, 1)
    Jdes = fdp.ConsumeIntInRange(1, 12) if Jk == 0 else fdp.ConsumeIntInRange(1, 2000)
    Kk = fdp.ConsumeIntInRange(0, 1)
    Kdes = fdp.ConsumeIntInRange(1, 5) if Kk == 0 else fdp.ConsumeIntInRange(1, 2000)
    bk = fdp.ConsumeIntInRange(0, 4)
    bmin = [1.0, 1.0, 1.5, 2.0][bk] if bk < 4 else 1.0 + fdp.ConsumeIntInRange(0, 999) / 1000.0 * max(0.0, N / 2.0 * 0.999 - 1.0)
    if not bmin < N / 2.0:
        bmin = 1.0
    lk = fdp.ConsumeIntInRange(0, 4)
    Lmin = [1, 1, 2, N][lk] if lk < 4 else fdp.ConsumeIntInRange(1, N)
    fs = FS[fdp.ConsumeIntInRange(0, len(FS) - 1)]
    return {"N": int(N), "fs": float(fs), "olap": float(olap), "bmin": float(bmin), "Lmin": int(max(1, min(N, Lmin))),
            "Jdes": int(Jdes), "Kdes": int(Kdes), "sched": sched}


def main(argv):
    prop, outdir, runs, seed = argv[0], argv[1], int(argv[2]), int(argv[3])
    corpus_kind = argv[4] if len(argv) > 4 else "empty"
    os.makedirs(outdir, exist_ok=True)
    import atheris
    with atheris.instrument_imports(include=["speckit.schedulers", "speckit.utils"]):
        import speckit.schedulers  # noqa: F401
        import speckit.utils  # noqa: F401
    from harness import findings
    from harness.api import case_hash, plain
    mod = importlib.import_module("harness.props." + prop.lower())
    oracle = mod.oracle
    known = findings.load(prop)
    st = {"evaluations": 0, "nontrivial": 0, "hashes": [], "classes": {}, "known_hits": 0, "violation": None}
    seen = set()

    def flush():
        st["hashes"] = sorted(seen)
        with open(os.path.join(outdir, "stats.json.tmp"), "w") as fh:
            json.dump(st, fh)
        os.replace(os.path.join(outdir, "stats.json.tmp"), os.path.join(outdir, "stats.json"))

    def one(data):
        fdp = atheris.FuzzedDataProvider(data)
        cfg = decode(fdp)
        try:
            res = oracle(cfg)
        except BaseException as exc:  # noqa: BLE001 - an exception from a scheduler is a violation (clause=raises)
            from harness.api import Res, V, speckit_frame
            where = speckit_frame(exc.__traceback__)
            if where is None:
                raise
            res = Res([V("raises", exc=type(exc).__name__, msg=str(exc)[:160], where=where)], False, ["raised"])
        st["evaluations"] += 1
        for lab in res.labels:
            st["classes"][lab] = st["classes"].get(lab, 0) + 1
        if res.nontrivial:
            st["nontrivial"] += 1
            seen.add("fuzz:" + case_hash(cfg))
        unlisted, matched = findings.split(known, res.viol)
        st["known_hits"] += matched
        if unlisted:
            st["violation"] = {"desc": plain(unlisted[0]), "case": plain(cfg)}
            flush()
            os._exit(77)
        if st["evaluations"] % 500 == 0:
            flush()
        if st["evaluations"] >= runs:
            flush()
            os._exit(0)

    corpus = os.path.join(outdir, "corpus")
    os.makedirs(corpus, exist_ok=True)
    if corpus_kind == "seeded":
        # a few small valid inputs (the test-suite configuration N=1e6 is too slow for a fuzz loop; scaled copies)
        for i, blob in enumerate([bytes([2, 1, 3, 1, 0, 0, 0, 1, 200, 1, 100, 1]), bytes([1, 200, 0, 90, 1, 2, 3, 0, 0, 10, 0, 20, 2]),
                                  bytes([0, 8, 1, 6, 1, 0, 0, 0, 1, 1, 1, 1, 3])]):
            with open(os.path.join(corpus, "seed%d" % i), "wb") as fh:
                fh.write(blob)
    args = [sys.argv[0], corpus, "-seed=%d" % (seed or 1), "-runs=%d" % (runs * 2), "-max_len=40", "-len_control=0", "-print_final_stats=0",
            "-artifact_prefix=" + outdir + os.sep, "-verbosity=0"]
    atheris.Setup(args, one)
    atheris.Fuzz()
    flush()


if __name__ == "__main__":
    main(sys.argv[1:])
