"""Shared machinery of the scheduler checks C02-C04: running the four schedulers on a generated
configuration and the validity predicates (R-SCHED).  Many plans are valid, so the oracle is a
predicate per clause of the property, never a re-implementation of a scheduler."""
import math

import numpy as np
from hypothesis import strategies as st

from . import gens
from .api import V

NAMES = gens.SCHEDULERS


def sched_func(name):
    from speckit import schedulers as S
    return {"lpsd": S.lpsd_plan, "ltf": S.ltf_plan, "vectorized_ltf": S.vectorized_ltf_plan,
            "new_ltf": S.new_ltf_plan}[name]


def run_plan(name, cfg):
    kw = dict(N=int(cfg["N"]), fs=float(cfg["fs"]), olap=float(cfg["olap"]), bmin=float(cfg["bmin"]),
              Lmin=int(cfg["Lmin"]), Jdes=int(cfg["Jdes"]), Kdes=int(cfg["Kdes"]))
    return sched_func(name)(**kw)


def eff(name, cfg):
    """Effective (bmin, Lmin): lpsd fixes bmin=1, Lmin=1."""
    if name == "lpsd":
        return 1.0, 1
    return float(cfg["bmin"]), int(cfg["Lmin"])


def analyzer_plan(name, cfg):
    from speckit import SpectrumAnalyzer
    # the scheduler is named, or handed over as the library's own function object
    sched = sched_func(name) if cfg.get("sched_as") == "function" else name
    an = SpectrumAnalyzer(np.zeros(int(cfg["N"])), float(cfg["fs"]), olap=float(cfg["olap"]),
                          bmin=float(cfg["bmin"]), Lmin=int(cfg["Lmin"]), Jdes=int(cfg["Jdes"]),
                          Kdes=int(cfg["Kdes"]), scheduler=sched, verbose=bool(cfg.get("verbose", False)))
    return an.plan()


@st.composite
def config(draw, tier):
    """Admissible scheduler configuration + scheduler name.  The work of the iterative schedulers
    is sum_j K_j python iterations with K ~ N/((1-olap) L), so N is bounded by 2e5*(1-olap)
    (the degenerate class (1-olap)*L<1 is reached with small N anyway)."""
    Nmax = 20000 if tier == "quick" else 200000
    cfg = draw(gens.sched_config(Nmax=Nmax))
    cap = int(max(64, (2e5 if tier == "quick" else 1e6) * (1.0 - cfg["olap"])))
    if cfg["N"] > cap:
        cfg["N"] = cap
        cfg["Lmin"] = min(cfg["Lmin"], cap)
        if not cfg["bmin"] < cap / 2.0:
            cfg["bmin"] = 1.0
    cfg["sched"] = draw(st.sampled_from(NAMES))
    cfg["verbose"] = draw(st.booleans())      # analyzer option: must not matter for the plan
    cfg["sched_as"] = draw(st.sampled_from(["name", "name", "function"]))
    return cfg


def grid_configs(tier):
    """Exhaustive small scope (DESIGN.md C02): every combination, every scheduler."""
    if tier == "quick":
        Ns = [8, 9, 16, 31]
        olaps = [0.0, 0.5, 0.75, 0.99, 1.0 / 3.0, 0.6]
        bmins = [1.0, 2.0]
        Jd = [1, 3, 10, 100]
        Kd = [1, 5, 100]
    else:
        Ns = list(range(8, 41))
        olaps = [0.0, 0.25, 0.5, 0.75, 0.9, 0.99, 1.0 / 3.0, 2.0 / 3.0, 0.2, 0.3, 0.6, 0.7]
        bmins = [1.0, 1.5, 2.0, 3.7]
        Jd = [1, 2, 3, 5, 10, 30, 100]
        Kd = [1, 2, 5, 20, 100]
    for N in Ns:
        for olap in olaps:
            for bmin in bmins:
                if not bmin < N / 2.0:
                    continue
                for Lmin in sorted(set([1, 2, 3, 5, N // 2, N])):
                    if not 1 <= Lmin <= N:
                        continue
                    for J in Jd:
                        for K in Kd:
                            for name in NAMES:
                                if name == "lpsd" and (bmin != 1.0 or Lmin != 1):
                                    continue  # lpsd ignores them: one representative
                                yield {"N": N, "fs": 1.0, "olap": olap, "bmin": bmin, "Lmin": Lmin,
                                       "Jdes": J, "Kdes": K, "sched": name, "verbose": (N + J + K) % 2 == 1,
                                       "sched_as": "function" if (N + Lmin + K) % 3 == 0 else "name"}


def classify(name, cfg, plan):
    """Labels recomputed from observables."""
    N, olap = int(cfg["N"]), float(cfg["olap"])
    bmin, Lmin = eff(name, cfg)
    L = np.asarray(plan["L"], dtype=np.int64)
    K = np.asarray(plan["navg"], dtype=np.int64)
    labels = ["sched:" + name]
    if np.any((1.0 - olap) * L < 1.0):
        labels.append("degenerate")
    if Lmin > 1 and np.any(L == Lmin):
        labels.append("Lmin-clamped")
    if np.any(K == 1):
        labels.append("single-segment-bins")
    if N < 64:
        labels.append("N<64")
    b = np.asarray(plan["b"], dtype=float)
    if np.any(np.abs(b - bmin) <= 0.5 * (1 + 1e-9)) and bmin > 1:
        labels.append("bmin-active")
    return labels


def ulps(a, b):
    a, b = float(a), float(b)
    if a == b:
        return 0.0
    sp = max(np.spacing(abs(a)), np.spacing(abs(b)))
    return abs(a - b) / sp


def vio(clause, name, cfg, j=None, **kw):
    d = dict(sched=name, N=cfg["N"], fs=cfg["fs"], olap=cfg["olap"], bmin=cfg["bmin"], Lmin=cfg["Lmin"],
             Jdes=cfg["Jdes"], Kdes=cfg["Kdes"])
    if j is not None:
        d["bin"] = int(j)
    d.update(kw)
    return V(clause, **d)


def kstar(N, L, olap):
    """Attainable number of averages: 1+(N-L)/((1-olap)L), capped at the N-L+1 distinct positions."""
    return min(1.0 + (N - L) / ((1.0 - olap) * L), float(N - L + 1))


def logfact(N, Jdes):
    return (N / 2.0) ** (1.0 / Jdes) - 1.0


def vec_rho(cfg, name):
    """Spacing ratio of the vectorised scheduler's lookup grid as built by the pinned tree
    (10*Jdes log-spaced points); a finer grid only makes the bounds that use it looser."""
    if name != "vectorized_ltf":
        return 1.0
    bmin = float(cfg["bmin"])
    fmin = bmin * cfg["fs"] / cfg["N"]
    fmax = cfg["fs"] / 2.0
    npts = max(2, 10 * int(cfg["Jdes"]))
    return (fmax / fmin) ** (1.0 / (npts - 1))
