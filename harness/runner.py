"""Parent process of a check:  ./check <ID> [--tier quick|thorough] [--replay <file>]

Spawns worker processes (one per shard and per environment), merges their summaries, applies
the quotas, writes /verif/evidence/<ID>.json (validated against EVIDENCE.schema.json) and
prints the interface lines.  Exit 0 / 1 / 2 as described in DESIGN.md section 2.
"""
import argparse
import importlib
import json
import os
import subprocess
import sys
import time

from . import env as E


def _schema_validate(evidence):
    schema_path = "/root/.vp/EVIDENCE.schema.json"
    local = os.path.join(E.VERIF, "harness", "EVIDENCE.schema.json")
    path = schema_path if os.path.exists(schema_path) else local
    if not os.path.exists(path):
        return None
    try:
        sys.path.append(E.DEPS)
        import jsonschema
    except Exception:
        return None
    with open(path) as fh:
        schema = json.load(fh)
    try:
        jsonschema.validate(evidence, schema)
    except jsonschema.ValidationError as exc:
        return str(exc)[:500]
    return None


def main(argv=None):
    ap = argparse.ArgumentParser()
    ap.add_argument("prop")
    ap.add_argument("--tier", default=os.environ.get("VERIF_TIER", "quick"), choices=["quick", "thorough"])
    ap.add_argument("--replay", default=None)
    ap.add_argument("--shards", type=int, default=None)
    args = ap.parse_args(argv)
    prop = args.prop.upper()
    try:
        seed = int(os.environ.get("VERIF_SEED", "1"))
    except ValueError:
        seed = 1
    t0 = time.time()

    if not E.ensure_deps():
        print("HARNESS-ERROR property=%s could not install hypothesis/jsonschema from the wheelhouse" % prop)
        return 2
    tag = E.source_hash()
    E.prune_numba_caches(tag)
    scratch = os.path.join(E.CACHE, "run-%s-%d" % (prop, os.getpid()))
    os.makedirs(scratch, exist_ok=True)

    # which environments / how many shards does this property need?  (import without speckit)
    sys.path.insert(0, E.VERIF)
    os.environ.setdefault("SPECKIT_ROOT", E.speckit_root())
    meta = _module_meta(prop)
    if meta is None:
        print("HARNESS-ERROR property=%s: no such check" % prop)
        return 2
    envs = meta["envs"]
    nshards = args.shards or (meta["shards_quick"] if args.tier == "quick" else meta["shards_thorough"])

    jobs = []
    if args.replay:
        with open(args.replay) as fh:
            rp = json.load(fh)
        envtag = meta["part_env"].get(rp["part"], "default")
        jobs.append((envtag, 0, 1, ["--replay", os.path.abspath(args.replay)]))
    else:
        for envtag in envs:
            n = nshards if envtag == "default" else max(1, min(nshards, meta.get("shards_" + envtag, nshards)))
            for s in range(n):
                jobs.append((envtag, s, n, []))

    # warm the JIT cache once (so that N shards do not compile the same kernels concurrently)
    if meta.get("uses_numba", True) and not args.replay and len(jobs) > 1:
        for envtag in envs:
            _warm(envtag)

    procs = []
    for (envtag, s, n, extra) in jobs:
        out = os.path.join(scratch, "%s-%s-%d.json" % (prop, envtag, s))
        cmd = [sys.executable, "-m", "harness.worker", prop, args.tier, str(seed), str(s), str(n), envtag, out] + extra
        log = open(out + ".log", "w")
        p = subprocess.Popen(cmd, cwd=E.VERIF, env=E.child_env(cudasim=(envtag == "cudasim")),
                             stdout=log, stderr=subprocess.STDOUT)
        procs.append((p, out, envtag, s, log))

    results, harness_errors = [], []
    for p, out, envtag, s, log in procs:
        rc = p.wait()
        log.close()
        if os.path.exists(out):
            with open(out) as fh:
                results.append(json.load(fh))
        else:
            with open(out + ".log") as fh:
                tail = fh.read()[-3000:]
            harness_errors.append({"part": "<worker %s/%d rc=%d>" % (envtag, s, rc), "error": tail})

    # ---- merge
    evaluations = sum(r["evaluations"] for r in results)
    hashes = set()
    classes, parts, samples, known_hits, info = {}, {}, [], {}, {}
    violations = []
    for r in results:
        hashes.update(r["nontrivial_hashes"])
        for k, v in r["classes"].items():
            classes[k] = classes.get(k, 0) + v
        for k, v in r["parts"].items():
            d = parts.setdefault(k, {"evaluations": 0, "nontrivial": 0})
            d["evaluations"] += v["evaluations"]
            d["nontrivial"] += v["nontrivial"]
        for k, v in r["known_hits"].items():
            known_hits[k] = known_hits.get(k, 0) + v
        for k, v in r["info"].items():
            if k not in info or v > info[k]:
                info[k] = v
        violations.extend(r["violations"])
        harness_errors.extend(r["harness_errors"])
    for k in parts:
        parts[k]["distinct_nontrivial"] = len([h for h in hashes if h.startswith(k + ":")])
    # samples: a few from each worker, bounded
    for r in results:
        for smp in r["samples"][:2]:
            if len(samples) < 12:
                samples.append(smp)
    wall = time.time() - t0

    # ---- quotas (generator starvation is a harness error, never a pass)
    quota_msgs = []
    if not args.replay and not violations:
        for key, mins in meta["quotas"].items():
            need = mins.get(args.tier, 0)
            scale = float(os.environ.get("VERIF_SCALE", "1"))
            # the listed numbers are about half the typical class counts; seed-to-seed variation of short Hypothesis runs
            # reached 30% below them (DESIGN 11.15), so starvation is declared at half the listed value
            need = int(need * min(1.0, scale) * 0.5)
            if key.startswith("part:"):
                got = parts.get(key[5:], {}).get("distinct_nontrivial", 0)
            elif key == "distinct_nontrivial":
                got = len(hashes)
            else:
                got = classes.get(key, 0)
            if got < need:
                quota_msgs.append("quota %s: %d < %d" % (key, got, need))

    from . import findings
    known = findings.load(prop)

    evidence = {
        "property_id": prop, "tier": args.tier, "seed": seed, "level": "exploration",
        "coverage": {
            "evaluations": evaluations,
            "distinct_nontrivial": len(hashes),
            "rule": meta["rule"],
            "samples": samples if samples else [{"note": "no non-trivial case was generated"}],
            "parts": parts, "classes": dict(sorted(classes.items())),
            "known_findings_hit": known_hits, "calibration": info,
            "shards": len(jobs), "source_hash": tag,
            "replay_of": args.replay,
        },
        "assumptions": meta["assumptions"],
        "wall_s": round(wall, 2),
        "violations": len(violations),
    }
    if not args.replay:
        evdir = os.path.join(E.VERIF, "evidence")
        if E.speckit_root() != "/repo":   # mutation self-test against a scratch copy: keep real evidence
            evdir = os.path.join(scratch, "evidence-selftest")
        if os.environ.get("VERIF_EVIDENCE_DIR"):   # runs against a deliberately broken /repo (tools/seedtest.sh)
            evdir = os.environ["VERIF_EVIDENCE_DIR"]
        os.makedirs(evdir, exist_ok=True)
        evpath = os.path.join(evdir, prop + ".json")
        with open(evpath, "w") as fh:
            json.dump(_jsonsafe(evidence), fh, indent=1, allow_nan=False, default=str)
        err = _schema_validate(json.load(open(evpath)))
        if err and not violations:
            quota_msgs.append("evidence does not validate: " + err)

    # ---- report
    for k in known:
        print("KNOWN-FINDING: property=%s %s [sig=%s, matched %d generated cases in this run]"
              % (prop, k.text, k.sig, known_hits.get(k.sig, 0)))
    seen = set()
    for v in violations:
        key = (v["part"], v["desc"].get("clause"))
        if key in seen:
            continue
        seen.add(key)
        print("VIOLATION property=%s replay=%s" % (prop, v["replay"]))
        print("  part=%s %s" % (v["part"], json.dumps(v["desc"], default=str)[:600]))
    print("%s tier=%s seed=%d evaluations=%d distinct_nontrivial=%d violations=%d wall=%.1fs"
          % (prop, args.tier, seed, evaluations, len(hashes), len(violations), wall))
    _rm(scratch, keep=bool(harness_errors))
    if violations:
        return 1
    if harness_errors or quota_msgs:
        for h in harness_errors[:5]:
            print("HARNESS-ERROR property=%s part=%s\n%s" % (prop, h["part"], h["error"]))
        for q in quota_msgs:
            print("HARNESS-ERROR property=%s %s" % (prop, q))
        return 2
    return 0


def _jsonsafe(v):
    """Strict JSON: non-finite floats become strings."""
    if isinstance(v, float) and (v != v or v in (float("inf"), float("-inf"))):
        return repr(v)
    if isinstance(v, dict):
        return {str(k): _jsonsafe(x) for k, x in v.items()}
    if isinstance(v, (list, tuple)):
        return [_jsonsafe(x) for x in v]
    return v


def _rm(path, keep=False):
    import shutil
    if not keep:
        shutil.rmtree(path, ignore_errors=True)


def _module_meta(prop):
    """Ask a child (with the proper import path) for the static description of the check."""
    code = (
        "import json,sys\n"
        "import importlib\n"
        "try:\n"
        "    m=importlib.import_module('harness.props.%s')\n"
        "except ModuleNotFoundError as e:\n"
        "    if 'harness.props' in str(e): print('null'); sys.exit(0)\n"
        "    raise\n"
        "envs=[]\n"
        "for p in m.PARTS:\n"
        "    if p.env not in envs: envs.append(p.env)\n"
        "print(json.dumps({'envs':envs,'rule':m.RULE,'assumptions':m.ASSUMPTIONS,\n"
        "  'quotas':getattr(m,'QUOTAS',{}),'shards_quick':getattr(m,'SHARDS_QUICK',2),\n"
        "  'shards_thorough':getattr(m,'SHARDS_THOROUGH',16),'shards_cudasim':getattr(m,'SHARDS_CUDASIM',2),\n"
        "  'uses_numba':getattr(m,'USES_NUMBA',True),\n"
        "  'part_env':{p.name:p.env for p in m.PARTS}}))\n" % prop.lower()
    )
    r = subprocess.run([sys.executable, "-c", code], cwd=E.VERIF, env=E.child_env(), capture_output=True, text=True)
    if r.returncode != 0:
        sys.stderr.write(r.stderr[-3000:])
        return None
    try:
        return json.loads(r.stdout.strip().splitlines()[-1])
    except Exception:
        sys.stderr.write(r.stdout[-2000:] + r.stderr[-2000:])
        return None


def _warm(envtag):
    code = "from harness import warm; warm.run(%r)" % envtag
    subprocess.run([sys.executable, "-c", code], cwd=E.VERIF, env=E.child_env(cudasim=(envtag == "cudasim")),
                   capture_output=True, text=True)


if __name__ == "__main__":
    try:
        rc = main()
    except SystemExit:
        raise
    except BaseException:  # noqa: BLE001 - a crash of the harness is never a VIOLATION (exit 1)
        import traceback
        traceback.print_exc()
        print("HARNESS-ERROR runner crashed")
        rc = 2
    sys.exit(rc)
