"""C01 - per-bin statistics equal the windowed-DFT definition on every backend."""
import numpy as np
from hypothesis import strategies as st

from .. import gens, refs, tol
from ..api import Part, Res, V

PROPERTY_ID = "C01"
RULE = (
    "Hypothesis-generated direct calls of the 6 Numba, 6 NumPy and (in a NUMBA_ENABLE_CUDASIM child) 6 CUDA "
    "statistics functions, plus analyses through SpectrumAnalyzer.compute_single_bin/compute, each judged against a "
    "direct evaluation of X_k(w)=sum_n w[n](x_k[n]-trend_k[n])exp(-iwn) (R-DFT, longdouble accumulation, Legendre "
    "least-squares trend) within the rounding budget 64*eps*L*min(L,1/|sin w|)*S and against the other backends. "
    "For mean removal (order 0) the budget is the tighter centred-scale bound: recurrence error on the centred samples plus "
    "the mean's own rounding (4 eps L max|x|) times |W(w)| (tol.order0_err), so rounding proportional to a pedestal of up to "
    "1e12 times the signal is not tolerated; start vectors include progressions and progressions with moved interior elements. "
    "A case is non-trivial when a defect would be visible: cross mode with |Im XY| > 1e3*budget (conjugation "
    "visible), or K>=2 with M2 > 1e3*budget, or order>=1 with L>order+1 and a non-zero detrended spectrum; distinct = "
    "distinct canonical hash of the fully materialisable case description."
)
ASSUMPTIONS = [
    "CUDA kernels are executed by Numba's CUDA simulator (kernel logic, not PTX generation or real SIMT execution)",
    "records lie in the magnitude domain |x| in {0} U [1e-60,1e60]",
    "the reference evaluates the DFT directly in (long)double precision; its own error is within the budget",
]
SHARDS_QUICK = 2
SHARDS_THOROUGH = 16
SHARDS_CUDASIM = 2


# relation kinds weighted towards complex-valued cross-spectra (where a conjugation is visible)
REL_W = ["indep", "indep", "indep", "delay", "delay", "partial", "partial", "gain", "same", "neg", "yzero", "xzero"]


def _funcs(backend):
    from speckit import core
    if backend == "numba":
        return (core._stats_win_only_auto, core._stats_win_only_csd, core._stats_detrend0_auto,
                core._stats_detrend0_csd, core._stats_poly_auto, core._stats_poly_csd)
    if backend == "numpy":
        return (core._stats_win_only_auto_np, core._stats_win_only_csd_np, core._stats_detrend0_auto_np,
                core._stats_detrend0_csd_np, core._stats_poly_auto_np, core._stats_poly_csd_np)
    from speckit import core_cuda as cc
    return (cc._stats_win_only_auto_cuda, cc._stats_win_only_csd_cuda, cc._stats_detrend0_auto_cuda,
            cc._stats_detrend0_csd_cuda, cc._stats_poly_auto_cuda, cc._stats_poly_csd_cuda)


def call_backend(backend, order, x, y, starts, L, w, omega, chunk=None):
    from speckit.core import _build_Q
    f = _funcs(backend)
    starts = np.ascontiguousarray(starts, dtype=np.int64)
    # the NumPy fallbacks process the segments in blocks of `_chunk` (keyword-only, default 8192..32768):
    # a small value exercises the block loop with the K<=16 segments of a quick case
    kw = {"_chunk": int(chunk)} if (chunk and backend == "numpy") else {}
    if order == -1:
        r = f[0](x, starts, L, w, omega, **kw) if y is None else f[1](x, y, starts, L, w, omega, **kw)
    elif order == 0:
        r = f[2](x, starts, L, w, omega, **kw) if y is None else f[3](x, y, starts, L, w, omega, **kw)
    else:
        Q = _build_Q(L, order)
        r = f[4](x, starts, L, w, omega, Q, **kw) if y is None else f[5](x, y, starts, L, w, omega, Q, **kw)
    return tuple(float(v) for v in r)


@st.composite
def kernel_case(draw, maxN, maxK):
    order = draw(st.sampled_from([-1, 0, 1, 2]))
    N = draw(st.one_of(st.integers(1, 48), st.integers(8, maxN), st.integers(8, maxN)))
    L = draw(st.one_of(st.sampled_from([1, 2, 3, order + 1, order + 2, N]), st.sampled_from([64, 128, 256, 384, 512, 1024]), st.integers(min(2, N), N),
                       st.integers(min(4, N), N), st.integers(min(4, N), N)))
    L = min(max(1, L), N)
    mode = draw(st.sampled_from(["auto", "csd", "csd"]))
    case = {"order": order, "N": N, "L": L, "mode": mode}
    if mode == "csd":
        case["rec"] = draw(gens.pair(N, rel_kinds=REL_W))
    else:
        case["rec"] = draw(gens.record(N))
    case["starts"] = draw(gens.starts(N, L, maxK=maxK))
    case["w"] = draw(gens.window_vec(L))
    case["omega"] = draw(gens.omega(L))
    case["chunk"] = draw(st.sampled_from([0, 0, 1, 2, 3, 7]))     # 0: library default
    case["aliased"] = draw(st.booleans())
    case["reverse"] = draw(st.booleans())
    return case


def judge(case, backends):
    order, L, mode = case["order"], case["L"], case["mode"]
    if mode == "csd":
        x, y = gens.materialise_pair(case["rec"])
        if case["rec"]["rel"] == "delay" and case.get("aliased") and int(case["rec"]["d"]) < len(x):
            # the two records as overlapping views of ONE buffer (y[n] = x[n-d]): admissible input
            d = int(case["rec"]["d"])
            buf = np.concatenate([np.zeros(d), x])
            x, y = buf[d:], buf[:len(x)]
    else:
        x, y = gens.materialise(case["rec"]), None
    x0, y0 = x.copy(), (None if y is None else y.copy())      # pristine copies for the reference
    starts = np.asarray(case["starts"], dtype=np.int64)
    w = gens.materialise_window(case["w"])
    om = float(case["omega"])
    K = len(starts)
    ref = refs.dft_stats(x0, y0, starts, L, w, om, order)
    bx, by, bxy, b4 = tol.budgets(x0, y0, starts, L, w, om, order, ref)
    viol, got, worst = [], {}, 0.0
    seq = list(backends) if not case.get("reverse") else list(backends)[::-1]
    seq = seq + [seq[0] + "#again"]
    for be_tag in seq:
        be = be_tag.split("#")[0]
        mxx, myy, mur, mui, m2 = call_backend(be, order, x, y, starts, L, w, om, case.get("chunk"))
        got[be_tag] = (mxx, myy, mur, mui, m2)
        checks = [("XX", mxx, ref["XX"], bx), ("YY", myy, ref["YY"], by),
                  ("ReXY", mur, ref["XY"].real, bxy), ("ImXY", mui, ref["XY"].imag, bxy),
                  ("M2", m2, ref["M2"], tol.budget_m2(bxy if mode == "csd" else bx, ref["M2"], b4))]
        for name, a, b, bud in checks:
            err = abs(a - b)
            if not (err <= bud):
                viol.append(V("stat_vs_definition", backend=be_tag, stat=name, got=a, ref=b, budget=bud,
                              order=order, mode=mode, L=L, K=K, omega=om))
            else:
                worst = max(worst, err / bud * tol.C)   # in units of eps*L*g*S
        if mode == "auto":
            if myy != mxx or mui != 0.0 or abs(mur - mxx) > bx:
                viol.append(V("auto_conventions", backend=be_tag, got=[mxx, myy, mur, mui], order=order))
    bes = list(got)
    for i in range(len(bes)):
        for j in range(i + 1, len(bes)):
            a, b = got[bes[i]], got[bes[j]]
            for name, k, bud in (("XX", 0, bx), ("YY", 1, by), ("ReXY", 2, bxy), ("ImXY", 3, bxy), ("M2", 4, b4)):
                if not (abs(a[k] - b[k]) <= 2 * bud):
                    viol.append(V("backends_disagree", a=bes[i], b=bes[j], stat=name, va=a[k], vb=b[k],
                                  budget=2 * bud, order=order, mode=mode))
    if not np.array_equal(x, x0) or (y is not None and not np.array_equal(y, y0)):
        viol.append(V("kernel_modified_its_input_record", order=order, mode=mode, L=L, K=K, backends=seq))
    conj_visible = mode == "csd" and abs(ref["XY"].imag) > 1e3 * bxy
    scatter_visible = K >= 2 and ref["M2"] > 1e3 * b4
    if K >= 2 and ref["M2"] < 1e-12 * max(abs(ref["XY"]) ** 2, 1e-300) and abs(ref["XY"]) ** 2 > 1e3 * b4:
        labels_extra = ["tiny-relative-scatter"]
    else:
        labels_extra = []
    trend_visible = order >= 1 and L > order + 1 and ref["XX"] > 1e3 * bx
    nontrivial = conj_visible or scatter_visible or trend_visible
    labels = ["cell:%s,o=%d,%s" % (be, order, mode) for be in backends] + labels_extra
    if conj_visible:
        labels.append("conj_visible")
    if scatter_visible:
        labels.append("scatter_visible")
    if trend_visible:
        labels.append("trend_visible")
    if L == 1:
        labels.append("L=1")
    if K == 1:
        labels.append("K=1")
    sd = float(np.std(x0))
    if order == 0 and L >= 8 and sd > 0 and abs(float(np.mean(x0))) > 1e6 * sd:
        labels.append("order0:pedestal>1e6*signal")
    if case.get("chunk") and K > case["chunk"] and "numpy" in backends:
        labels.append("numpy-multi-block")
    if mode == "csd" and case["rec"]["rel"] == "delay" and case.get("aliased"):
        labels.append("aliased-channels")
    if K > 256 and "cuda" in backends:
        labels.append("cuda-multi-block")
    return Res(viol, nontrivial, labels, {"worst_err_in_eps_L_g_S": worst})


@st.composite
def cuda_blocks_case(draw):
    """K > 256 segments: more than one CUDA block of 256 threads (the simulator runs every thread in Python,
    so N and L are kept small)."""
    case = draw(kernel_case(160, 8))
    N, L = case["N"], case["L"]
    K = draw(st.integers(257, 600))
    seed = draw(st.integers(0, 2 ** 31 - 1))
    case["starts"] = [int(v) for v in np.random.default_rng(seed).integers(0, N - L + 1, K)]
    return case


def oracle_kernels(case):
    return judge(case, ["numba", "numpy"])


def oracle_kernels_cuda(case):
    return judge(case, ["cuda", "numba"])


# ---------------------------------------------------------------- through the public API
@st.composite
def api_case(draw, maxN, backends):
    N = draw(st.integers(16, maxN))
    mode = draw(st.sampled_from(["auto", "csd", "csd"]))
    cfg = draw(gens.analysis_config(N, backends=backends, Jmax=20, Kmax=10))
    case = {"N": N, "mode": mode, "cfg": cfg, "fs": draw(st.sampled_from([1.0, 2.0, 100.0, 0.37]))}
    case["rec"] = draw(gens.pair(N, rel_kinds=REL_W) if mode == "csd" else gens.record(N))
    case["how"] = draw(st.sampled_from(["single_L", "single_fres", "full"]))
    if case["how"] != "full":
        case["L"] = draw(st.integers(1, N))
        case["fbin"] = draw(st.floats(0.0, 0.5))   # freq = fbin*fs
    return case


def oracle_api(case):
    N, mode, cfg, fs = case["N"], case["mode"], case["cfg"], case["fs"]
    if mode == "csd":
        x, y = gens.materialise_pair(case["rec"])
        data = np.vstack([x, y])
    else:
        x, y = gens.materialise(case["rec"]), None
        data = x
    an = gens.make_analyzer(data, fs, cfg)
    _, wref = gens.resolve_window(cfg["win"])
    if case["how"] == "full":
        res = an.compute()
    elif case["how"] == "single_L":
        res = an.compute_single_bin(case["fbin"] * fs, L=case["L"])
    else:
        res = an.compute_single_bin(case["fbin"] * fs, fres=fs / case["L"])
    viol, worst, nontrivial = [], 0.0, False
    nf = len(res.f)
    idxs = range(nf) if nf <= 12 else sorted(set([0, 1, nf // 3, nf // 2, nf - 2, nf - 1]))
    for j in idxs:
        L = int(res.L[j])
        D = np.asarray(res.D[j], dtype=np.int64)
        f = float(res.f[j])
        om = 2 * np.pi * f / fs
        w = wref(L, cfg["psll"])
        ref = refs.dft_stats(x, y, D, L, w, om, cfg["order"])
        bx, by, bxy, b4 = tol.budgets(x, y, D, L, w, om, cfg["order"], ref)
        XY = complex(res.XY[j])
        for name, a, b, bud in (("XX", float(res.XX[j]), ref["XX"], bx), ("YY", float(res.YY[j]), ref["YY"], by),
                                ("ReXY", XY.real, ref["XY"].real, bxy), ("ImXY", XY.imag, ref["XY"].imag, bxy),
                                ("M2", float(res.M2[j]), ref["M2"], tol.budget_m2(bxy if mode == "csd" else bx, ref["M2"], b4))):
            if mode == "auto" and name == "ImXY":
                b = 0.0
            if not (abs(a - b) <= bud):
                viol.append(V("result_vs_definition", backend=cfg["backend"], stat=name, got=a, ref=b, budget=bud,
                              order=cfg["order"], mode=mode, L=L, K=len(D), bin=j, how=case["how"]))
            else:
                worst = max(worst, abs(a - b) / bud * tol.C)
        if (mode == "csd" and abs(ref["XY"].imag) > 1e3 * bxy) or (len(D) >= 2 and ref["M2"] > 1e3 * b4):
            nontrivial = True
    labels = ["api:%s,o=%d,%s" % (cfg["backend"], cfg["order"], mode), "api-how:" + case["how"]]
    return Res(viol, nontrivial, labels, {"worst_err_in_eps_L_g_S": worst})


def oracle_api_cuda(case):
    return oracle_api(case)


PARTS = [
    Part("kernels", lambda tier: kernel_case(400 if tier == "quick" else 2 ** 15, 16 if tier == "quick" else 600),
         oracle_kernels, n_quick=1500, n_thorough=8000),
    Part("api", lambda tier: api_case(600 if tier == "quick" else 20000, ("numba", "numpy")),
         oracle_api, n_quick=150, n_thorough=600),
    Part("kernels_cuda", lambda tier: kernel_case(120 if tier == "quick" else 400, 8 if tier == "quick" else 300),
         oracle_kernels_cuda, n_quick=120, n_thorough=600, env="cudasim"),
    Part("api_cuda", lambda tier: api_case(200, ("cuda",)), oracle_api_cuda, n_quick=12, n_thorough=60,
         env="cudasim"),
    Part("kernels_cuda_blocks", lambda tier: cuda_blocks_case(), oracle_kernels_cuda, n_quick=3, n_thorough=20, env="cudasim",
         shrink=False),
]

_cells = ["cell:%s,o=%d,%s" % (b, o, m) for b in ("numba", "numpy") for o in (-1, 0, 1, 2) for m in ("auto", "csd")]
QUOTAS = {c: {"quick": 10, "thorough": 100} for c in _cells}
QUOTAS.update({"cell:cuda,o=%d,%s" % (o, m): {"quick": 4, "thorough": 20} for o in (-1, 0, 1, 2) for m in ("auto", "csd")})
QUOTAS["conj_visible"] = {"quick": 100, "thorough": 1000}
QUOTAS["scatter_visible"] = {"quick": 100, "thorough": 1000}
QUOTAS["numpy-multi-block"] = {"quick": 200, "thorough": 2000}
QUOTAS["cuda-multi-block"] = {"quick": 4, "thorough": 40}
