"""C14 - results do not depend on thread scheduling or on call history."""
import copy

import numpy as np
from hypothesis import strategies as st
from hypothesis.stateful import initialize, precondition, rule

from .. import gens
from ..api import MachinePart, Part, Res, V
from ..machine import TracedMachine

PROPERTY_ID = "C14"
RULE = (
    "(a) schedule sweep: generated (record, configuration with many segments per bin) analysed under every drawn "
    "(thread count t in 1..ncpu, numba parallel chunk size c in {0,1,2,3,8,64}) pair, 3 repetitions each, full and "
    "single-bin: raw statistics must equal the t=1 baseline (rtol 1e-12 of XX+YY: tolerant of a legitimately "
    "re-ordered reduction, far below a lost or duplicated segment which is O(1/K)); (b) a RuleBasedStateMachine over "
    "one analyzer with rules plan(), compute(), compute_single_bin(request from a pool), set_threads(t), "
    "set_chunksize(c), touch(result, attribute): after every step plan() equals the deep copy taken at its first "
    "call, every stored result's raw fields equal their snapshot, every attribute read equals the value a fresh "
    "result gives when read first, a repeated compute()/single-bin request equals the first; (c) attribute-access "
    "permutations: a fresh result read in a drawn permutation of all attribute names gives the canonical values "
    "(rtol 1e-13; the machine also creates and uses unrelated analyzers in between: rule other_analyzer) "
    "(rtol 1e-13). Non-trivial: t>=2 with a bin of K>=4t segments (a); machine runs containing a full and a "
    "single-bin computation and >=1 thread/chunk change (b); non-identity permutations (c)."
)
ASSUMPTIONS = [
    "the harness chooses the configuration of the schedule (threads, chunk size, repetitions), not the interleaving itself: "
    "a race that needs one particular interleaving can be missed",
    "numba threading layer as configured by speckit/__init__.py (workqueue)",
]
SHARDS_QUICK = 4

from .c20 import ALL_NAMES, same  # the attribute table and comparison of C20  # noqa: E402

RAWF = ("XX", "YY", "XY", "M2", "S12", "S2")


def _data(rec, mode):
    if mode == "csd":
        x, y = gens.materialise_pair(rec)
        return np.vstack([x, y])
    return gens.materialise(rec)


def raw_equal(a, b, tag, viol, **kw):
    if len(a.f) != len(b.f) or not np.array_equal(np.asarray(a.L), np.asarray(b.L)):
        viol.append(V("plan_differs", what=tag, **kw))
        return
    scale = np.abs(np.asarray(b.XX)) + np.abs(np.asarray(b.YY))
    for k in RAWF:
        u, v = np.asarray(getattr(a, k)), np.asarray(getattr(b, k))
        s = scale if k in ("XX", "YY", "XY") else (scale ** 2 if k == "M2" else np.abs(v))
        bad = np.abs(u - v) > 1e-12 * s
        if bad.any():
            j = int(np.argmax(bad))
            viol.append(V("result_depends_on_schedule_or_history", what=tag, field=k, bin=j, got=u[j], baseline=v[j],
                          K=int(np.asarray(b.navg)[j]), **kw))
            return


# ------------------------------------------------------------------ (a) schedule sweep
@st.composite
def sweep_case(draw, tier):
    import os
    ncpu = os.cpu_count() or 2
    N = draw(gens.loguniform_int(3000, 20000 if tier == "quick" else 60000))
    mode = draw(st.sampled_from(["auto", "csd", "csd"]))
    cfg = draw(gens.analysis_config(N, backends=("numba",), Jmax=30, Kmax=60))
    cfg["olap"] = draw(st.sampled_from([0.5, 0.75, 0.9, "default"]))
    cfg["Lmin"] = draw(st.sampled_from([1, 8, 32]))
    nsched = 4 if tier == "quick" else 6
    scheds = [[draw(st.integers(2, ncpu)), draw(st.sampled_from([0, 1, 2, 3, 8, 64]))] for _ in range(nsched)]
    return {"N": N, "mode": mode, "cfg": cfg, "fs": draw(st.sampled_from([1.0, 100.0])), "scheds": scheds,
            "rec": draw(gens.pair(N, rel_kinds=["indep", "partial", "delay"]) if mode == "csd" else gens.record(N, kinds=["noise", "ar1", "sines"])),
            "single": {"L": draw(st.integers(4, 64)), "fbin": draw(st.floats(0.01, 0.49))}}


def oracle_sweep(case):
    import numba
    data = _data(case["rec"], case["mode"])
    cfg, fs = case["cfg"], case["fs"]
    viol = []
    t0 = numba.get_num_threads()
    nontrivial = False
    try:
        numba.set_num_threads(1)
        c0 = numba.set_parallel_chunksize(0)
        an = gens.make_analyzer(data, fs, cfg)
        base = an.compute()
        base1 = an.compute_single_bin(case["single"]["fbin"] * fs, L=case["single"]["L"])
        Kmax = int(np.max(np.asarray(base.navg)))
        for t, c in case["scheds"]:
            numba.set_num_threads(int(t))
            numba.set_parallel_chunksize(int(c))
            for rep in range(3):
                an2 = gens.make_analyzer(data, fs, cfg)
                raw_equal(an2.compute(), base, "compute", viol, threads=t, chunk=c, rep=rep)
                raw_equal(an2.compute_single_bin(case["single"]["fbin"] * fs, L=case["single"]["L"]), base1, "single_bin", viol,
                          threads=t, chunk=c, rep=rep)
                if viol:
                    break
            if viol:
                break
            if t >= 2 and Kmax >= 4 * t:
                nontrivial = True
    finally:
        numba.set_num_threads(t0)
        numba.set_parallel_chunksize(0)
    return Res(viol, nontrivial, ["sweep:" + case["mode"], "sweep:o=%d" % cfg["order"]], {"sweep_max_K": float(Kmax)})


# ------------------------------------------------------------------ (c) attribute-access permutations
@st.composite
def perm_case(draw, tier):
    return {"kind": draw(st.sampled_from(["auto_full", "csd_full", "csd_single", "auto_single", "csd_band"])), "seed": draw(st.integers(0, 10 ** 6)),
            "perm": draw(st.permutations(list(range(len(ALL_NAMES))))), "twice": draw(st.booleans())}


def oracle_perm(case):
    from .c20 import build
    ref = build(case["kind"], case["seed"])
    canon = {}
    for name in ALL_NAMES:                      # canonical order; values copied at the time they are read
        canon[name] = copy.deepcopy(getattr(ref, name))
    r = build(case["kind"], case["seed"])
    viol = []
    order = [ALL_NAMES[i] for i in case["perm"]]
    for name in order + (order[::-1] if case["twice"] else []):
        if not same(getattr(r, name), canon[name]):
            viol.append(V("attribute_depends_on_access_order", q=name, kind=case["kind"], position=order.index(name)))
            break
    ident = case["perm"] == sorted(case["perm"])
    return Res(viol, not ident, ["perm:" + case["kind"]])


# ------------------------------------------------------------------ (b) history machine
REQS = [(0.05, 16), (0.21, 64), (0.37, 7), (0.49, 128), (0.11, 2700), (0.3, 1600), (0.33, 64), (0.12, 16)]   # incl. single segments shorter than N=3000


class AnalyzerHistory(TracedMachine):
    def init_state(self):
        self.an = None
        self.nother = 0
        self.results = []       # (result, snapshot of raw fields, key)
        self.first = {}
        self.plan0 = None
        self.read = []          # (result index, name)
        self.changes = 0
        self.did_full = self.did_single = False

    @initialize(seed=st.integers(0, 10 ** 6), mode=st.sampled_from(["auto", "csd"]), order=st.sampled_from([-1, 0, 1, 2]),
                sched=st.sampled_from(["ltf", "vectorized_ltf", "new_ltf", "lpsd"]), band=st.booleans(),
                backend=st.sampled_from(["numba", "numpy"]), offset=st.sampled_from([0.0, 5.0]),
                force=st.sampled_from([0, 0, 0, 120, 250]))
    def init(self, seed, mode, order, sched, band, backend, offset, force):
        self.step("init", seed=seed, mode=mode, order=order, sched=sched, band=band, backend=backend, offset=offset, force=force)

    def do_init(self, seed, mode, order, sched, band, backend="numba", offset=0.0, force=0):
        import numba
        from speckit import SpectrumAnalyzer
        self._t0 = numba.get_num_threads()
        rng = np.random.default_rng(seed)
        N = 3000
        x = rng.standard_normal(N) + offset
        y = 0.5 * np.concatenate([[0.0], x[:-1]]) + rng.standard_normal(N)
        self.data = np.vstack([x, y]) if mode == "csd" else x
        self.data0 = self.data.copy()          # fresh analyses always start from a pristine copy of the record
        self.kw = dict(order=order, scheduler=sched, Jdes=20, Kdes=10, olap=0.75, backend=backend)
        self.backend = backend
        if band:
            self.kw["band"] = (0.02, 0.3)
        self.fs = 1.0
        self.force = 0
        if force and sched == "vectorized_ltf":
            force = 0        # its Jdes search allocates 10*Jdes-point grids for Jdes up to 1e6 (about 1 s per scheduler call)
        if force:
            # forced bin count: the target is the count the scheduler gives for Jdes=force (reachable by construction);
            # the analyzer then has to find a Jdes itself, once, and keep the resulting plan
            from .. import sched as _sched
            probe = _sched.sched_func(sched)(N=N, fs=1.0, olap=0.75, bmin=1.0, Lmin=1, Jdes=int(force), Kdes=10)
            self.kw.update(Jdes=int(probe["nf"]), force_target_nf=True)
            self.kw.pop("band", None)
            self.force = int(force)
        self.an = SpectrumAnalyzer(self.data, self.fs, **self.kw)
        self.mode = mode

    def fresh(self):
        from speckit import SpectrumAnalyzer
        return SpectrumAnalyzer(self.data0.copy(), self.fs, **self.kw)

    def fresh_result(self, key):
        """The same request on a fresh analyzer over a pristine copy of the record, computed once per request kind;
        every call returns a new SpectrumResult wrapped around those raw statistics (nothing read from it yet)."""
        from speckit import SpectrumResult
        if not hasattr(self, "_fresh"):
            self._fresh = {}
        if key not in self._fresh:
            an = self.fresh()
            if key == "full":
                ref = an.compute()
            elif key[0] == "plan":          # single-bin request at the frequency and segment length of plan bin key[1]
                p = an.plan()
                ref = self.fresh().compute_single_bin(float(p["f"][key[1]]), L=int(p["L"][key[1]]))
            else:
                ref = an.compute_single_bin(REQS[key[1]][0] * self.fs, L=REQS[key[1]][1])
            names = ["f", "r", "b", "L", "K", "navg", "D", "O", "XX", "YY", "XY", "S12", "S2", "M2", "compute_t"]
            raw = {k: copy.deepcopy(getattr(ref, k)) for k in names}
            raw["D"] = [np.asarray(d) for d in raw["D"]]
            self._fresh[key] = (raw, ref.iscsd, ref.fs)
        raw, iscsd, fs = self._fresh[key]
        return SpectrumResult({k: copy.deepcopy(v) for k, v in raw.items()}, {"order": self.kw["order"]}, iscsd, fs)

    def _store(self, res, key):
        snap = {k: np.array(getattr(res, k), copy=True) for k in RAWF + ("f", "L", "navg")}
        # the same request on a fresh analyzer over a pristine copy of the record (no history at all)
        ref = self.fresh_result(key)
        v = []
        raw_equal(res, ref, "vs_fresh_analyzer:" + str(key), v)
        self.viol.extend(v)
        if key in self.first:
            v = []
            raw_equal(res, self.first[key], "repeat:" + str(key), v)
            self.viol.extend(v)
        else:
            self.first[key] = res
        if len(self.results) < 6:
            self.results.append((res, snap, key))

    @precondition(lambda self: self.an is not None)
    @rule()
    def plan(self):
        self.step("plan")

    def do_plan(self):
        p = self.an.plan()
        if self.plan0 is None:
            self.plan0 = copy.deepcopy(p)

    @precondition(lambda self: self.an is not None)
    @rule()
    def compute(self):
        self.step("compute")

    def do_compute(self):
        self.did_full = True
        self._store(self.an.compute(), "full")
        if self.plan0 is None:
            self.plan0 = copy.deepcopy(self.an.plan())

    @precondition(lambda self: self.an is not None)
    @rule(i=st.integers(0, len(REQS) - 1))
    def single(self, i):
        self.step("single", i=i)

    def do_single(self, i):
        self.did_single = True
        fb, L = REQS[i]
        self._store(self.an.compute_single_bin(fb * self.fs, L=L), ("single", i))

    @precondition(lambda self: self.an is not None)
    @rule(k=st.integers(0, 40))
    def single_at_plan_length(self, k):
        self.step("single_at_plan_length", k=k)

    def do_single_at_plan_length(self, k):
        """a single-bin request whose segment length is one the full plan also uses (shared per-L state)"""
        self.did_single = True
        p = self.fresh().plan()
        j = k % len(p["f"])
        self._store(self.an.compute_single_bin(float(p["f"][j]), L=int(p["L"][j])), ("plan", int(j)))

    @precondition(lambda self: self.an is not None)
    @precondition(lambda self: self.an is not None)
    @rule(seed=st.integers(0, 999), order=st.sampled_from([-1, 0, 1, 2]), win=st.sampled_from(["hann", "kaiser", "hanning"]),
          psll=st.sampled_from([40, 100, 180]), use=st.sampled_from(["none", "plan", "compute", "single", "wrapper"]))
    def other_analyzer(self, seed, order, win, psll, use):
        self.step("other_analyzer", seed=seed, order=order, win=win, psll=psll, use=use)

    def do_other_analyzer(self, seed, order, win, psll, use):
        """an unrelated analyzer (other record, sampling rate and options) is created - and possibly used - in between:
        nothing the analyzer under test returns may depend on it"""
        import speckit
        from speckit import SpectrumAnalyzer
        z = np.random.default_rng(seed).standard_normal(700)
        kw = dict(order=order, win=win, psll=psll, olap=0.3, Jdes=12, Kdes=5, bmin=2.0, Lmin=8, scheduler="ltf")
        if use == "wrapper":
            speckit.compute_spectrum(z, 7.0, **kw)
            return
        other = SpectrumAnalyzer(z, 7.0, **kw)
        if use == "plan":
            other.plan()
        elif use == "compute":
            other.compute()
        elif use == "single":
            other.compute_single_bin(1.3, L=100)
        self.nother += 1

    @rule(t=st.integers(1, 16))
    def threads(self, t):
        self.step("threads", t=t)

    def do_threads(self, t):
        import numba
        numba.set_num_threads(max(1, min(int(t), self._t0)))
        self.changes += 1

    @precondition(lambda self: self.an is not None)
    @rule(c=st.sampled_from([0, 1, 2, 3, 8, 64]))
    def chunk(self, c):
        self.step("chunk", c=c)

    def do_chunk(self, c):
        import numba
        numba.set_parallel_chunksize(int(c))
        self.changes += 1

    @precondition(lambda self: self.results)
    @rule(i=st.integers(0, 5), name=st.sampled_from(ALL_NAMES))
    def touch(self, i, name):
        self.step("touch", i=i, name=name)

    def do_touch(self, i, name):
        res, _, key = self.results[i % len(self.results)]
        val = getattr(res, name)
        # canonical: the same request on a fresh analyzer, attribute read first
        ref = self.fresh_result(key)
        if not same(val, getattr(ref, name), 1e-12):
            self.flag("attribute_depends_on_history", q=name, key=str(key))

    def check(self):
        if self.an is None:
            return
        if self.plan0 is not None:
            p = self.an.plan()
            for k in ("f", "r", "b", "L", "K", "navg", "O"):
                if not np.array_equal(np.asarray(p[k]), np.asarray(self.plan0[k])):
                    self.flag("cached_plan_changed", field=k)
                    return
            if len(p["D"]) != len(self.plan0["D"]) or any(not np.array_equal(a, b) for a, b in zip(p["D"], self.plan0["D"])):
                self.flag("cached_plan_changed", field="D")
        for res, snap, key in self.results:
            for k, v in snap.items():
                if not np.array_equal(np.asarray(getattr(res, k)), v):
                    self.flag("stored_result_changed", field=k, key=str(key))
                    return

    def cleanup(self):
        try:
            import numba
            numba.set_num_threads(getattr(self, "_t0", numba.get_num_threads()))
            numba.set_parallel_chunksize(0)
        except Exception:
            pass

    def summary(self):
        nt = self.did_full and self.did_single and self.changes >= 1
        return nt, ["machine:full+single" if self.did_full and self.did_single else "machine:partial",
                    "machine:backend=" + str(getattr(self, "backend", None))] + (["machine:other-analyzer"] if self.nother else []) + (["machine:force_target_nf"] if getattr(self, "force", 0) else [])


PARTS = [
    Part("sweep", sweep_case, oracle_sweep, n_quick=15, n_thorough=30, shrink=False),
    Part("permutations", perm_case, oracle_perm, n_quick=80, n_thorough=800),
    MachinePart("history", AnalyzerHistory, n_quick=50, n_thorough=300, steps=40),
]
QUOTAS = {"part:sweep": {"quick": 25, "thorough": 250}, "part:permutations": {"quick": 80, "thorough": 4000},
          "part:history": {"quick": 25, "thorough": 600}}
