"""C20 - derived result quantities and exports are consistent views of one estimate."""
import copy
import pickle

import numpy as np
from hypothesis import strategies as st
from hypothesis.stateful import initialize, precondition, rule

from .. import gens
from ..api import PLOT_KINDS, MachinePart, Part, Res, V, plot_quietly
from ..machine import TracedMachine

PROPERTY_ID = "C20"
RULE = (
    "Generated results: auto and cross, full and single-bin, plans whose bins all share one K (bands, L=N, Lmin=N), "
    "from real analyses and from synthetic raw dictionaries through the public constructor. Oracle: the relation table "
    "(asd^2=psd, ps=psd*ENBW, cs=csd*ENBW, cf=|Hxy|, cf_db=20log10 cf, cf_deg=cf_rad*180/pi (also unwrapped), "
    "Gyx=conj Gxy, Hyx=conj Hxy, tf=Hxy, csd=Gxy, psd=G=Gxx; rtol 1e-12), the None tables for auto vs cross, every "
    "dir() name evaluates; get_measurement == tabulated value at grid points, linear interpolation of real and "
    "imaginary parts in between, clamped outside, scalar in -> scalar out; to_dataframe() succeeds, is indexed by f and "
    "each column equals the per-bin array (all per-bin arrays present, no others). A RuleBasedStateMachine applies "
    "{read attribute, copy.copy, copy.deepcopy, pickle round trip, to_dataframe, get_measurement, plot (any kind, with "
    "or without error band, Agg backend)} in any order to a pool of results; invariant: every value read from any "
    "object equals the value a fresh result gives, and right after a plot every attribute does. "
    "Non-trivial: single-bin or uniform-K result, or a copy/pickle made before any attribute was read; machine runs "
    "with >=3 reads and at least one copy or plot."
)
ASSUMPTIONS = [
    "pickling is generated only for configurations whose window/scheduler are importable by name (a user lambda is legitimately unpicklable)",
]
SHARDS_QUICK = 4

KINDS = ["auto_full", "csd_full", "auto_single", "csd_single", "auto_uniformK", "csd_uniformK", "csd_band", "synthetic_csd",
         "synthetic_auto"]
AUTO_ONLY = ["psd", "G", "asd", "ps", "Gxx_emp_dev"]
CROSS_ONLY = ["csd", "Gyx", "Hxy", "Hyx", "coh", "ccoh", "cs", "tf", "cf", "cf_db", "cf_rad", "cf_deg", "cf_rad_unwrapped",
              "cf_deg_unwrapped", "GyyCx", "GyyRx", "GyySx", "Gxy_dev", "Hxy_dev", "coh_dev", "Gxy_error", "Hxy_mag_error",
              "Hxy_rad_error", "Hxy_deg_error", "coh_error", "Gxy_emp_dev"]
BOTH = ["Gxx", "Gyy", "Gxy", "ENBW", "Gxx_dev", "Gyy_dev", "Gxx_error", "Gyy_error", "XX_mean", "YY_mean", "XY_M2", "XY_emp_var",
        "XY_emp_dev"]
RAW = ["f", "r", "b", "L", "K", "navg", "O", "XX", "YY", "XY", "S12", "S2", "M2"]
ALL_NAMES = RAW + BOTH + AUTO_ONLY + CROSS_ONLY


def build(kind, seed, N=200):
    """Deterministic result of the requested kind."""
    from speckit import SpectrumAnalyzer, SpectrumResult
    rng = np.random.default_rng(seed)
    iscsd = "csd" in kind
    x = rng.standard_normal(N)
    y = np.concatenate([[0.0, 0.0], x[:-2]]) * 0.7 + 0.6 * rng.standard_normal(N)
    data = np.vstack([x, y]) if iscsd else x
    fs = [1.0, 10.0, 0.25][seed % 3]
    order = [0, -1, 1, 2][seed % 4]
    if kind.startswith("synthetic"):
        nf = 1 + seed % 5
        K = 1 + (seed // 5) % 4
        XX = rng.uniform(0.1, 10, nf)
        YY = rng.uniform(0.1, 10, nf) if iscsd else XX
        g2 = rng.uniform(0.05, 1.0, nf)
        XY = np.sqrt(g2 * XX * YY) * np.exp(1j * rng.uniform(-3, 3, nf)) if iscsd else XX.astype(complex)
        f = np.sort(rng.uniform(0.01, 0.45, nf)) * fs
        rr = np.full(nf, fs / 32) * [1.0, 1.0, 1.013][seed % 3]        # a result's r need not be fs/L (cf. single-bin fres requests)
        d = {"f": f, "r": rr, "b": f / rr, "L": np.full(nf, 32), "K": np.full(nf, K), "navg": np.full(nf, K),
             "D": [np.arange(K) * 3 for _ in range(nf)], "O": np.zeros(nf), "XX": XX, "YY": YY, "XY": XY,
             "S12": np.full(nf, 256.0), "S2": np.full(nf, 12.0), "M2": rng.uniform(0, 1, nf), "compute_t": np.zeros(nf)}
        return SpectrumResult(d, {"order": order}, iscsd, fs)
    kw = dict(order=order, Jdes=12 + seed % 9, Kdes=2 + seed % 5, scheduler=["ltf", "vectorized_ltf", "new_ltf", "lpsd"][seed % 4],
              win=["kaiser", "hann", np.kaiser][seed % 3], backend=["numba", "numpy"][seed % 2])
    if kind.endswith("uniformK"):
        kw["Lmin"] = N                      # every bin: L=N, K=1
    if kind.endswith("band"):
        an0 = SpectrumAnalyzer(data, fs, **kw)
        f = an0.plan()["f"]
        lo = f[len(f) // 3]
        kw["band"] = (float(lo), float(f[min(len(f) - 1, len(f) // 3 + 1 + seed % 3)]))
    an = SpectrumAnalyzer(data, fs, **kw)
    if kind.endswith("single"):
        Ls = [N, N // 2, 17, 1][seed % 4]
        if seed % 3 == 2 and Ls > 1:
            # requested through a resolution that does not divide the sampling rate (L is its rounding; r stays as requested)
            return an.compute_single_bin((0.05 + 0.04 * (seed % 10)) * fs, fres=fs / (Ls + [0.37, -0.41][seed % 2]))
        return an.compute_single_bin((0.05 + 0.04 * (seed % 10)) * fs, L=Ls)
    return an.compute()


def same(a, b, rt=1e-13):
    if a is None or b is None:
        return a is None and b is None
    a, b = np.asarray(a), np.asarray(b)
    if a.dtype == object or b.dtype == object:
        return len(a) == len(b) and all(np.array_equal(np.asarray(p), np.asarray(q)) for p, q in zip(a, b))
    if a.shape != b.shape:
        return False
    with np.errstate(all="ignore"):
        eq = (a == b) | (np.isnan(a) & np.isnan(b)) if a.dtype.kind in "fc" else (a == b)
        close = np.abs(a - b) <= rt * np.abs(b)
    return bool(np.all(eq | close))


def check_relations(r, viol):
    iscsd = r.iscsd
    nf = len(r.f)

    def rel(name, got, exp, rt=1e-12):
        if not same(got, exp, rt):
            viol.append(V("relation", q=name, nf=nf, iscsd=iscsd))

    for name in (AUTO_ONLY if iscsd else CROSS_ONLY):
        if getattr(r, name) is not None:
            viol.append(V("not_None_for_other_mode", q=name, iscsd=iscsd))
    for name in (CROSS_ONLY if iscsd else AUTO_ONLY) + BOTH:
        val = getattr(r, name)
        if val is None or np.asarray(val).shape[:1] != (nf,):
            viol.append(V("missing_or_misshaped", q=name, iscsd=iscsd))
            return
    S2 = np.asarray(r.S2)

    def div(num, den):
        """num/den, and 0 where the denominator vanishes (the documented guard, see C13)."""
        num, den = np.asarray(num), np.asarray(den)
        out = np.zeros(np.broadcast(num, den).shape, dtype=np.result_type(num, den, float))
        np.divide(num, den, out=out, where=(den != 0))
        return out

    k = div(2.0, r.fs * S2)
    rel("Gxx", r.Gxx, k * np.asarray(r.XX))
    rel("ENBW", r.ENBW, div(r.fs * S2, np.asarray(r.S12)))
    if not iscsd:
        rel("psd", r.psd, r.Gxx)
        rel("G", r.G, r.Gxx)
        rel("asd^2", np.asarray(r.asd) ** 2, r.psd)
        rel("ps", r.ps, np.asarray(r.psd) * np.asarray(r.ENBW))
        rel("Gyy(auto)", r.Gyy, r.Gxx)
        rel("Gxy(auto)", r.Gxy, r.Gxx)
    else:
        XX, YY, XY = np.asarray(r.XX), np.asarray(r.YY), np.asarray(r.XY)
        rel("Gyy", r.Gyy, k * YY)
        rel("Gxy", r.Gxy, k * XY)
        rel("csd", r.csd, r.Gxy)
        rel("Gyx", r.Gyx, np.conj(np.asarray(r.Gxy)))
        rel("Hxy", r.Hxy, div(np.conj(XY), XX))
        rel("Hyx", r.Hyx, np.conj(np.asarray(r.Hxy)))
        rel("tf", r.tf, r.Hxy)
        rel("cf", r.cf, np.abs(np.asarray(r.Hxy)))
        with np.errstate(all="ignore"):
            rel("cf_db", r.cf_db, 20 * np.log10(np.asarray(r.cf)))
        rel("cf_rad", r.cf_rad, np.angle(np.asarray(r.Hxy)))
        rel("cf_deg", r.cf_deg, np.asarray(r.cf_rad) * 180 / np.pi)
        rel("cf_rad_unwrapped", r.cf_rad_unwrapped, np.unwrap(np.asarray(r.cf_rad)))
        rel("cf_deg_unwrapped", r.cf_deg_unwrapped, np.asarray(r.cf_rad_unwrapped) * 180 / np.pi)
        rel("cs", r.cs, np.asarray(r.csd) * np.asarray(r.ENBW))
        rel("coh", r.coh, div(np.abs(XY) ** 2, XX * YY))
        rel("ccoh", r.ccoh, div(XY, np.sqrt(XX * YY)))
    for name in dir(r):
        try:
            getattr(r, name)
        except Exception as exc:  # noqa: BLE001
            viol.append(V("dir_name_raises", q=name, exc=type(exc).__name__))
    # ... and still None after everything else has been evaluated (no dependence on the access order)
    for name in (AUTO_ONLY if iscsd else CROSS_ONLY):
        if getattr(r, name) is not None:
            viol.append(V("not_None_for_other_mode_after_other_reads", q=name, iscsd=iscsd))


def check_measurement(r, which, us, viol):
    val = getattr(r, which)
    if val is None:
        return
    f = np.asarray(r.f, dtype=float)
    val = np.asarray(val)
    nf = len(f)
    # grid points
    for j in sorted(set([0, nf // 2, nf - 1])):
        got = r.get_measurement(float(f[j]), which)
        if isinstance(got, np.ndarray):
            viol.append(V("measurement_scalar_in_array_out", which=which))
            return
        if not (abs(got - val[j]) <= 1e-12 * abs(val[j]) + 1e-300 or (np.isnan(got) and np.isnan(val[j])) or got == val[j]):
            viol.append(V("measurement_at_grid_point", which=which, bin=j, got=got, expected=val[j]))
    # in between / outside / arrays
    q = np.array([f[0] * 0.5, f[-1] * 1.5] + [f[0] + u * (f[-1] - f[0]) for u in us])
    got = np.asarray(r.get_measurement(q, which))
    if got.shape != q.shape:
        viol.append(V("measurement_array_shape", which=which))
        return
    if np.iscomplexobj(val):
        exp = np.interp(q, f, val.real) + 1j * np.interp(q, f, val.imag)
    else:
        exp = np.interp(q, f, val)
    if not same(got, exp, 1e-12):
        viol.append(V("measurement_interpolation", which=which, q=q.tolist(), got=got, expected=exp))
    if not (same(got[0], val[0], 1e-12) and same(got[1], val[-1], 1e-12)):
        viol.append(V("measurement_not_clamped_outside", which=which))


def check_dataframe(r, viol):
    try:
        df = r.to_dataframe()
    except Exception as exc:  # noqa: BLE001
        viol.append(V("to_dataframe_raises", exc=type(exc).__name__, msg=str(exc)[:120], nf=len(r.f), iscsd=r.iscsd,
                      uniformK=len(set(np.asarray(r.K).tolist())) == 1))
        return
    nf = len(r.f)
    if df.index.name != "f" or not np.array_equal(np.asarray(df.index), np.asarray(r.f)):
        viol.append(V("dataframe_index_not_f"))
    per_bin = []
    for name in dir(r):
        if name.startswith("_") or name in ("iscsd", "fs", "f"):
            continue
        v = getattr(r, name)
        if isinstance(v, np.ndarray) and v.shape[:1] == (nf,):
            per_bin.append(name)
    missing = sorted(set(per_bin) - set(df.columns))
    extra = sorted(set(df.columns) - set(per_bin))
    na = sorted(set(df.columns) & set(AUTO_ONLY if r.iscsd else CROSS_ONLY))
    if na:
        viol.append(V("dataframe_has_columns_of_the_other_mode", cols=na, iscsd=r.iscsd))
    if missing or extra:
        viol.append(V("dataframe_columns", missing=missing, extra=extra))
    for name in df.columns:
        if name in per_bin and not same(np.asarray(df[name]), getattr(r, name), 0.0):
            viol.append(V("dataframe_column_value", q=name))
            break
    if len(df) != nf:
        viol.append(V("dataframe_length", n=len(df), nf=nf))


# ------------------------------------------------------------------ stateless part
@st.composite
def result_case(draw, tier):
    return {"kind": draw(st.sampled_from(KINDS)), "seed": draw(st.integers(0, 10 ** 6)), "N": draw(st.sampled_from([64, 200, 777])),
            "which": draw(st.sampled_from(RAW + RAW[3:6] + BOTH + AUTO_ONLY + CROSS_ONLY)), "us": draw(st.lists(st.floats(0, 1), min_size=1, max_size=4)),
            "pre": draw(st.sampled_from(["none", "copy", "deepcopy", "pickle"]))}


def oracle_result(case):
    r = build(case["kind"], case["seed"], case["N"])
    viol = []
    if case["pre"] != "none":
        # a copy taken before any attribute was read must behave like the original
        try:
            r2 = {"copy": copy.copy, "deepcopy": copy.deepcopy, "pickle": lambda o: pickle.loads(pickle.dumps(o))}[case["pre"]](r)
        except Exception as exc:  # noqa: BLE001
            viol.append(V("copy_raises", how=case["pre"], exc=type(exc).__name__, kind=case["kind"]))
            return Res(viol, True, ["pre:" + case["pre"]])
        ref = build(case["kind"], case["seed"], case["N"])
        for name in ALL_NAMES:
            if not same(getattr(r2, name), getattr(ref, name)):
                viol.append(V("copy_value_differs", how=case["pre"], q=name, kind=case["kind"]))
                break
        r = r2
    check_relations(r, viol)
    check_measurement(r, case["which"], case["us"], viol)
    check_dataframe(r, viol)
    K = np.asarray(r.K)
    uniform = len(r.f) == 1 or len(set(K.tolist())) == 1
    labels = ["kind:" + case["kind"], "pre:" + case["pre"]]
    if uniform:
        labels.append("uniformK-or-single")
    return Res(viol, uniform or case["pre"] != "none", labels)


# ------------------------------------------------------------------ history machine
class ResultHistory(TracedMachine):
    def init_state(self):
        self.pool = []
        self.canon = None
        self.ncopies = 0
        self.nreads = 0
        self.nplots = 0
        self.kind = None

    @initialize(kind=st.sampled_from(KINDS), seed=st.integers(0, 10 ** 6))
    def init(self, kind, seed):
        self.step("init", kind=kind, seed=seed)

    def do_init(self, kind, seed):
        self.kind = kind
        self.pool = [build(kind, seed)]
        ref = build(kind, seed)
        self.canon = {name: getattr(ref, name) for name in ALL_NAMES}
        for name in (AUTO_ONLY if ref.iscsd else CROSS_ONLY):
            self.canon[name] = None

    @precondition(lambda self: self.pool)
    @rule(i=st.integers(0, 7), name=st.sampled_from(ALL_NAMES))
    def read(self, i, name):
        self.step("read", i=i, name=name)

    def do_read(self, i, name):
        obj = self.pool[i % len(self.pool)]
        self.nreads += 1
        if name in (AUTO_ONLY if obj.iscsd else CROSS_ONLY) and getattr(obj, name) is not None:
            self.flag("not_None_for_other_mode", q=name, iscsd=obj.iscsd, kind=self.kind)
        if not same(getattr(obj, name), self.canon[name]):
            self.flag("value_depends_on_history", q=name, obj=i % len(self.pool), kind=self.kind)

    @precondition(lambda self: self.pool)
    @rule(i=st.integers(0, 7), how=st.sampled_from(["copy", "deepcopy", "pickle"]))
    def dup(self, i, how):
        self.step("dup", i=i, how=how)

    def do_dup(self, i, how):
        obj = self.pool[i % len(self.pool)]
        try:
            new = {"copy": copy.copy, "deepcopy": copy.deepcopy, "pickle": lambda o: pickle.loads(pickle.dumps(o))}[how](obj)
        except Exception as exc:  # noqa: BLE001
            self.flag("copy_raises", how=how, exc=type(exc).__name__, kind=self.kind)
            return
        self.ncopies += 1
        if len(self.pool) < 8:
            self.pool.append(new)

    @precondition(lambda self: self.pool)
    @rule(i=st.integers(0, 7))
    def dataframe(self, i):
        self.step("dataframe", i=i)

    def do_dataframe(self, i):
        v = []
        check_dataframe(self.pool[i % len(self.pool)], v)
        self.viol.extend(v)

    @precondition(lambda self: self.pool)
    @rule(i=st.integers(0, 7), which=st.sampled_from(RAW + BOTH + AUTO_ONLY + CROSS_ONLY), u=st.floats(0, 1))
    def measure(self, i, which, u):
        self.step("measure", i=i, which=which, u=u)

    def do_measure(self, i, which, u):
        v = []
        check_measurement(self.pool[i % len(self.pool)], which, [u], v)
        self.viol.extend(v)

    @precondition(lambda self: self.pool)
    @rule(i=st.integers(0, 7), which=st.sampled_from(PLOT_KINDS), errors=st.booleans(), sigma=st.sampled_from([1, 2, 3, 0.5]),
          dB=st.booleans(), deg=st.booleans())
    def draw_plot(self, i, which, errors, sigma, dB, deg):
        self.step("draw_plot", i=i, which=which, errors=errors, sigma=sigma, dB=dB, deg=deg)

    def do_draw_plot(self, i, which, errors, sigma, dB, deg):
        """drawing a result is one more way of reading it: every attribute keeps its value afterwards"""
        obj = self.pool[i % len(self.pool)]
        plot_quietly(obj, which, errors=errors, sigma=sigma, dB=dB, deg=deg)
        self.nplots += 1
        for name in ALL_NAMES:
            if not same(getattr(obj, name), self.canon[name]):
                self.flag("value_changed_by_plot", q=name, which=str(which), errors=errors, sigma=sigma, kind=self.kind)
                return

    def check(self):
        # every object of the pool still exposes the raw fields unchanged
        if self.canon is None:
            return
        for k, obj in enumerate(self.pool):
            for name in ("XX", "XY", "f", "navg"):
                if not same(getattr(obj, name), self.canon[name]):
                    self.flag("raw_field_changed", q=name, obj=k)

    def summary(self):
        return ((self.ncopies >= 1 or self.nplots >= 1) and self.nreads >= 3), ["machine:" + str(self.kind), "copies>=1" if self.ncopies else "copies=0"] + (["plots>=1"] if self.nplots else [])


PARTS = [
    Part("results", result_case, oracle_result, n_quick=150, n_thorough=1500),
    MachinePart("history", ResultHistory, n_quick=60, n_thorough=500, steps=30),
]
QUOTAS = {"uniformK-or-single": {"quick": 150, "thorough": 2000}, "pre:pickle": {"quick": 50, "thorough": 500},
          "part:history": {"quick": 40, "thorough": 500}, "plots>=1": {"quick": 30, "thorough": 400}}
