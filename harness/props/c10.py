"""C10 - analytic error bars are the Bendat-Piersol expressions and predict the scatter."""
import math
import os

import numpy as np
from hypothesis import strategies as st

from .. import gens, refs
from ..api import PLOT_KINDS, GridPart, Part, Res, V, plot_quietly

PROPERTY_ID = "C10"
RULE = (
    "(a) synthetic results built through the public SpectrumResult constructor from drawn raw statistics "
    "(XX,YY in 1e-30..1e30, XY=sqrt(g2 XX YY)e^{i phi}, g2 log-uniform in (1e-12,1], values 1-10^-k and exactly 1, "
    "navg in 1..1e6, auto and cross) - this reaches the whole (g2,n,magnitude) domain; (b) results of real generated "
    "analyses. Oracle: every *_dev/*_error equals the Bendat-Piersol expression typed from the property text (rtol "
    "1e-12), dev == estimate*error, error(4n)==error(n)/2, mag_err<=rad_err<=(pi/2)mag_err, rad/mag<=1+1e-3 for "
    "g2>=1-1e-6, deg==rad*180/pi, auto results have Gxx_dev=Gxx/sqrt(n) and None for cross-only quantities. "
    "A third of the real and a sixth of the synthetic results are drawn (plot with an error band of sigma deviations, "
    "Agg backend) before their error bars are read. "
    "(c) Monte-Carlo grid g2 in {0.1,0.3,0.5,0.7,0.9,0.97} x n in {32,128}: Gaussian records, olap=0, Hann, "
    "single-bin analyses (navg==n asserted), M realisations; std over realisations of Gxx, coh, |Hxy| and complex Gxy "
    "divided by the mean reported deviation must lie in 1+-0.25 (quick, M=500) / 1+-0.15 (thorough, M=3000). "
    "Non-trivial (formula part): g2<0.9 or n<10; every Monte-Carlo cell is non-trivial."
)
ASSUMPTIONS = [
    "the Monte-Carlo clause uses a fixed-seed ensemble with a >=5 sigma tolerance: a formula wrong by less than ~15% in the "
    "predicted scatter is not detected by it (the deterministic formula part is exact)",
    "g2 in the formulas is the coherence the result itself reports (checked against |XY|^2/(XX YY) separately)",
]
SHARDS_QUICK = 4
USES_NUMBA = True

CROSS_ONLY = ["Gxy_dev", "Hxy_dev", "coh_dev", "Gxy_error", "Hxy_mag_error", "Hxy_rad_error", "Hxy_deg_error", "coh_error"]


def synth_result(nf, XX, YY, XY, navg, S2, fs, iscsd):
    from speckit import SpectrumResult
    f = np.linspace(0.01, 0.4, nf) * fs
    L = np.full(nf, 64, dtype=np.int64)
    d = {"f": f, "r": np.full(nf, fs / 64.0), "b": f / (fs / 64.0), "L": L, "K": np.asarray(navg, dtype=np.int64),
         "navg": np.asarray(navg, dtype=np.int64), "D": [np.arange(int(k), dtype=np.int64) for k in np.minimum(navg, 4)],
         "O": np.zeros(nf), "XX": np.asarray(XX, float), "YY": np.asarray(YY, float), "XY": np.asarray(XY, complex),
         "S12": np.full(nf, 4.0 * S2), "S2": np.full(nf, float(S2)), "M2": np.zeros(nf), "compute_t": np.zeros(nf)}
    return SpectrumResult(d, {"order": 0}, iscsd, fs)


@st.composite
def g2_value(draw):
    kind = draw(st.sampled_from(["log", "log", "uniform", "near1", "one"]))
    if kind == "log":
        return draw(gens.loguniform(1e-12, 1.0))
    if kind == "uniform":
        return draw(st.floats(0.001, 1.0))
    if kind == "near1":
        return 1.0 - 10.0 ** (-draw(st.integers(1, 15)))
    return 1.0


@st.composite
def synth_case(draw, tier):
    nf = draw(st.integers(1, 6))
    bins = []
    for _ in range(nf):
        bins.append({"XX": draw(st.one_of(gens.loguniform(1e-30, 1e30), gens.loguniform(1e-70, 1e70))),
                     "YY": draw(st.one_of(gens.loguniform(1e-30, 1e30), gens.loguniform(1e-70, 1e70))),
                     "XXauto": draw(st.one_of(gens.loguniform(1e-30, 1e30), gens.loguniform(1e-290, 1e290))),
                     "g2": draw(g2_value()), "phi": draw(st.floats(-math.pi, math.pi)),
                     "n": draw(st.one_of(st.integers(1, 12), gens.loguniform_int(1, 10 ** 6)))})
    return {"bins": bins, "iscsd": draw(st.sampled_from([True, True, True, False])),
            "S2": draw(gens.loguniform(1e-3, 1e3)), "fs": draw(gens.loguniform(1e-3, 1e6)), "x4": draw(st.booleans()),
            "pre": ({"which": draw(st.sampled_from(["psd", "coh", "csd", "cf", "bode", "asd"])), "sigma": draw(st.sampled_from([2, 3, 0.5]))}
                    if draw(st.integers(0, 5)) == 5 else None)}


def _close(a, b, rt=1e-12, at=0.0):
    a, b = np.asarray(a), np.asarray(b)
    return bool(np.all(np.abs(a - b) <= rt * np.abs(b) + at + 1e-300))


def check_formulas(res, iscsd, viol, tag):
    """All deviations/errors of `res` against R-BP, using the estimates and coherence res reports."""
    n = np.asarray(res.navg, dtype=float)
    Gxx, Gyy = np.asarray(res.Gxx), np.asarray(res.Gyy)
    if not _close(res.Gxx_error, 1 / np.sqrt(n)) or not _close(res.Gxx_dev, Gxx / np.sqrt(n)):
        viol.append(V("Gxx_dev_or_error", where=tag))
    if not _close(res.Gyy_error, 1 / np.sqrt(n)) or not _close(res.Gyy_dev, Gyy / np.sqrt(n)):
        viol.append(V("Gyy_dev_or_error", where=tag))
    if not iscsd:
        for name in CROSS_ONLY:
            if getattr(res, name) is not None:
                viol.append(V("cross_only_quantity_not_None_for_auto", q=name, where=tag))
        return
    g2 = np.asarray(res.coh)
    XX, YY, XY = np.asarray(res.XX), np.asarray(res.YY), np.asarray(res.XY)
    ok = (XX > 0) & (YY > 0)
    if not _close(g2[ok], (np.abs(XY) ** 2 / (XX * YY))[ok], 1e-12):
        viol.append(V("coherence_definition", where=tag))
    pos = ok & (g2 > 0)
    if not pos.any():
        return
    with np.errstate(all="ignore"):
        bp = refs.bp_errors(np.abs(g2[pos]), n[pos])
        # 1-g2 may be -eps for a fully coherent bin; the property's expressions are for g2 in (0,1]
        one_m = np.abs(1.0 - g2[pos])
        bp["Hxy_mag_error"] = np.sqrt(one_m) / np.sqrt(2 * g2[pos] * n[pos])
        bp["Hxy_rad_error"] = np.arcsin(np.minimum(1.0, np.sqrt(one_m))) / np.sqrt(2 * g2[pos] * n[pos])
        bp["Hxy_deg_error"] = bp["Hxy_rad_error"] * 180.0 / np.pi
        bp["coh_error"] = np.sqrt(2.0) * one_m / np.sqrt(g2[pos] * n[pos])
    # a fully coherent bin may report g2 = 1 +- 1 ulp, for which 1-g2 = -+2e-16 instead of 0: an absolute
    # allowance of a few ulp of the prefactor 1/sqrt(g2 n) covers the sign of that rounding residue
    # (seen: g2 = 1 + 2e-15 on a K=1 bin; C09 bounds the excess by 1e-9, here it only sets the allowance)
    at = (16 * np.finfo(float).eps + 4.0 * np.maximum(g2[pos] - 1.0, 0.0)) / np.sqrt(g2[pos] * n[pos])
    for name in ("Gxy_error", "Hxy_mag_error", "Hxy_rad_error", "Hxy_deg_error", "coh_error"):
        got = np.asarray(getattr(res, name))[pos]
        if not _close(got, bp[name], 1e-12, at * (180 / np.pi if "deg" in name else 1.0)):
            j = int(np.argmax(np.abs(got - bp[name]) / (np.abs(bp[name]) + 1e-300)))
            viol.append(V("error_formula", q=name, got=float(got[j]), expected=float(bp[name][j]), g2=float(g2[pos][j]),
                          n=float(n[pos][j]), where=tag))
    est = {"Gxy_dev": (np.abs(np.asarray(res.Gxy)), "Gxy_error"), "Hxy_dev": (np.abs(np.asarray(res.Hxy)), "Hxy_mag_error"),
           "coh_dev": (g2, "coh_error")}
    for name, (e, err) in est.items():
        got = np.asarray(getattr(res, name))[pos]
        exp = e[pos] * bp[err]
        if not _close(got, exp, 1e-11, at * e[pos]):
            j = int(np.argmax(np.abs(got - exp) / (np.abs(exp) + 1e-300)))
            viol.append(V("dev_ne_estimate_times_error", q=name, got=float(got[j]), expected=float(exp[j]),
                          g2=float(g2[pos][j]), n=float(n[pos][j]), where=tag))
    mag, rad, deg = (np.asarray(res.Hxy_mag_error)[pos], np.asarray(res.Hxy_rad_error)[pos], np.asarray(res.Hxy_deg_error)[pos])
    if np.any(rad < mag * (1 - 1e-12)) or np.any(rad > (np.pi / 2) * mag * (1 + 1e-12)):
        viol.append(V("phase_error_vs_magnitude_error_bounds", where=tag))
    hi = g2[pos] >= 1 - 1e-6
    if np.any(rad[hi] > mag[hi] * (1 + 1e-3)):
        viol.append(V("phase_error_limit_at_full_coherence", where=tag))
    if not _close(deg, rad * 180.0 / np.pi):
        viol.append(V("deg_ne_rad_times_180_over_pi", where=tag))


def oracle_synth(case):
    bins = case["bins"]
    XX = np.array([b["XX"] if case["iscsd"] else b.get("XXauto", b["XX"]) for b in bins])
    YY = np.array([b["YY"] for b in bins])
    g2 = np.array([b["g2"] for b in bins])
    n = np.array([b["n"] for b in bins], dtype=np.int64)
    XY = np.sqrt(g2 * XX * YY) * np.exp(1j * np.array([b["phi"] for b in bins]))
    iscsd = case["iscsd"]
    res = synth_result(len(bins), XX, YY if iscsd else XX, XY if iscsd else XX.astype(complex), n, case["S2"], case["fs"], iscsd)
    viol = []
    pre = case.get("pre")
    if pre:
        plot_quietly(res, pre["which"], errors=True, sigma=pre["sigma"])
    check_formulas(res, iscsd, viol, "synthetic" + (":after-plot" if pre else ""))
    if case["x4"]:
        res4 = synth_result(len(bins), XX, YY if iscsd else XX, XY if iscsd else XX.astype(complex), 4 * n, case["S2"], case["fs"], iscsd)
        names = ["Gxx_error", "Gyy_error"] + (["Gxy_error", "Hxy_mag_error", "Hxy_rad_error", "coh_error", "Hxy_deg_error"] if iscsd else [])
        for name in names + ["Gxx_dev"] + (["Gxy_dev", "Hxy_dev", "coh_dev"] if iscsd else []):
            a, b = np.asarray(getattr(res4, name)), np.asarray(getattr(res, name))
            if not _close(a, b / 2.0, 1e-12):
                viol.append(V("not_one_over_sqrt_n", q=name))
    nontrivial = bool(np.any((g2 < 0.9) | (n < 10))) and iscsd
    labels = ["synth:csd" if iscsd else "synth:auto"] + (["synth:plotted-first"] if pre else [])
    if np.any(g2 == 1.0):
        labels.append("g2=1")
    if np.any(g2 < 1e-6):
        labels.append("g2<1e-6")
    if np.any(n == 1):
        labels.append("n=1")
    if np.any((XX < 1e-150) | (XX > 1e150)):
        labels.append("extreme-magnitude")
    return Res(viol, nontrivial or (not iscsd and bool(np.any((XX < 1e-150) | (XX > 1e150)))), labels)


@st.composite
def real_case(draw, tier):
    N = draw(gens.loguniform_int(32, 3000))
    mode = draw(st.sampled_from(["auto", "csd", "csd"]))
    pre = None
    if draw(st.integers(0, 2)) == 2:
        pre = {"which": draw(st.sampled_from(["asd", "psd", "psd", None] if mode == "auto" else ["coh", "csd", "cf", "bode", None])), "errors": draw(st.sampled_from([True, True, False])),
               "sigma": draw(st.sampled_from([1, 2, 3, 0.5]))}
    return {"N": N, "mode": mode, "pre": pre, "cfg": draw(gens.analysis_config(N, Jmax=40, Kmax=30)), "fs": draw(st.sampled_from([1.0, 50.0])),
            "rec": draw(gens.pair(N, rel_kinds=["indep", "partial", "partial", "delay", "gain", "yzero"]) if mode == "csd"
                        else gens.record(N))}


def oracle_real(case):
    if case["mode"] == "csd":
        x, y = gens.materialise_pair(case["rec"])
        data = np.vstack([x, y])
    else:
        data = gens.materialise(case["rec"])
    res = gens.make_analyzer(data, case["fs"], case["cfg"]).compute()
    viol = []
    labels = []
    pre = case.get("pre")
    if pre:
        # the result was used before its error bars are read: drawn with an error band of `sigma` deviations
        drawn = plot_quietly(res, pre["which"], errors=pre["errors"], sigma=pre["sigma"])
        labels.append("real:plotted-first" if drawn else "real:plot-refused")
    check_formulas(res, case["mode"] == "csd", viol, "analysis" + (":after-plot" if pre else ""))
    coh = np.asarray(res.coh) if case["mode"] == "csd" else np.ones(len(res.f))
    return Res(viol, bool(np.any((coh < 0.9) & (coh > 0))) and case["mode"] == "csd", ["real:" + case["mode"]] + labels)


# ------------------------------------------------------------------ (c) Monte-Carlo
def mc_cases(tier):
    seed = int(os.environ.get("VERIF_SEED", "1"))
    M = 500 if tier == "quick" else 3000
    for g2 in (0.1, 0.3, 0.5, 0.7, 0.9, 0.97):
        for n in (32, 128):
            yield {"g2": g2, "n": n, "M": M, "seed": seed * 1000 + int(g2 * 100) + n, "tolerance": 0.25 if tier == "quick" else 0.15}


def oracle_mc(case):
    from speckit import SpectrumAnalyzer
    g2, n, M = case["g2"], case["n"], case["M"]
    L = 64
    N = n * L
    rng = np.random.default_rng(case["seed"])
    a = 1.0
    b = math.sqrt(a * a * (1 - g2) / g2)
    fs = 1.0
    f0 = 8.0 * fs / L + 0.003
    vals = {"Gxx": [], "coh": [], "H": [], "Gxy": []}
    devs = {"Gxx": [], "coh": [], "H": [], "Gxy": []}
    viol = []
    for _ in range(M):
        x = rng.standard_normal(N)
        y = a * x + b * rng.standard_normal(N)
        r = SpectrumAnalyzer(np.vstack([x, y]), fs, olap=0.0, win="hann", order=-1).compute_single_bin(f0, L=L)
        if int(r.navg[0]) != n:
            viol.append(V("mc_setup_navg", navg=int(r.navg[0]), n=n))
            return Res(viol, False, [])
        vals["Gxx"].append(float(r.Gxx[0])); devs["Gxx"].append(float(r.Gxx_dev[0]))
        vals["coh"].append(float(r.coh[0])); devs["coh"].append(float(r.coh_dev[0]))
        vals["H"].append(abs(complex(r.Hxy[0]))); devs["H"].append(float(r.Hxy_dev[0]))
        vals["Gxy"].append(complex(r.Gxy[0])); devs["Gxy"].append(float(r.Gxy_dev[0]))
    ratios = {}
    for k in vals:
        v = np.asarray(vals[k])
        sd = math.sqrt(np.var(v.real) + np.var(v.imag)) if np.iscomplexobj(v) else float(np.std(v))
        ratios[k] = sd / float(np.mean(devs[k]))
        if not abs(ratios[k] - 1.0) <= case["tolerance"]:
            viol.append(V("predicted_scatter_mismatch", q=k, ratio=ratios[k], g2=g2, n=n, M=M, tolerance=case["tolerance"]))
    info = {"mc_max_abs_ratio_minus_1": max(abs(v - 1) for v in ratios.values())}
    return Res(viol, True, ["mc:g2=%g,n=%d" % (g2, n)], info)


PARTS = [
    Part("synthetic", synth_case, oracle_synth, n_quick=600, n_thorough=6000),
    Part("real", real_case, oracle_real, n_quick=40, n_thorough=400),
    GridPart("montecarlo", mc_cases, oracle_mc),
]
QUOTAS = {"g2=1": {"quick": 100, "thorough": 1000}, "g2<1e-6": {"quick": 100, "thorough": 1000}, "n=1": {"quick": 100, "thorough": 1000},
          "part:montecarlo": {"quick": 12, "thorough": 12}, "synth:auto": {"quick": 200, "thorough": 2000}}
