"""C18 - synthesised noise has the prescribed spectrum."""
import math
import os

import numpy as np
from hypothesis import strategies as st

from .. import gens
from ..api import GridPart, Part, Res, V

PROPERTY_ID = "C18"
RULE = (
    "(a) generated alpha_noise/pink_noise configurations (alpha in [0.01,2] incl. endpoints, fs in 10^[-1,4], "
    "fmax in (0, fs/2], fmin = fmax*10^[-6,-1.3], init_filter=False): the analytic response of the generator's own "
    "coefficient arrays (product of first-order sections evaluated on the unit circle) times scaling^2 gives the "
    "two-sided density S(f); |10 log10(S(f) f^alpha)| <= 1 dB on 300 log-spaced points of [4 fmin, fmax/4] and "
    "S(1 Hz) within 1 dB of 1 when 1 Hz lies there; (b) white noise: sample variance of 2e5 samples within 8 sigma of "
    "psd*fs, and with the seed fixed series(a*psd, fs)==sqrt(a)*series(psd, fs), series(psd, b*fs)==sqrt(b)*series(psd, "
    "fs) (rtol 1e-12); (c) fftnoise for every length 2..130 (exhaustive over length; generated magnitudes incl. zeros, "
    "negative/complex entries, garbage in the negative-frequency half): output real float64, |FFT(x)[k]|==|m[k]| for "
    "k<=N/2 (1e-12 max m) and Hermitian mirror; (d) band_limited_noise incl. lo=0 and hi=Nyquist: bins outside the "
    "band <=1e-12, inside magnitude 1. Bands too narrow to have an interior (down to a fifth of a decade, 1-5 sections) are judged at the band centre with 2 dB. Non-trivial: band spanning >=2 decades (a), even lengths with a non-zero "
    "Nyquist bin (c), every white/band case."
)
ASSUMPTIONS = [
    "the shaping filter is read from the constructed generator's coefficient arrays (observe_at of the property)",
    "corners themselves are excluded (the density is -3 dB at a corner by construction): points lie in [4 fmin, fmax/4]",
]
USES_NUMBA = True
SHARDS_QUICK = 4


# ------------------------------------------------------------------ (a) shaping filter
@st.composite
def alpha_case(draw, tier):
    fs = 10 ** draw(st.floats(-1, 4))
    fmax = fs / 2 * draw(st.one_of(st.just(1.0), st.floats(0.01, 1.0), st.floats(1e-4, 1.0)))
    fmin = fmax * 10 ** (-draw(st.floats(1.3, 6.0)))
    if draw(st.integers(0, 2 ** 20)) % 4 == 3:
        fmin = fmax * 10 ** (-draw(st.floats(0.08, 1.3)))       # narrow bands, down to a fifth of a decade
    alpha = draw(st.one_of(st.floats(0.01, 2.0), st.sampled_from([0.01, 0.5, 1.0, 1.5, 2.0])))
    return {"fs": fs, "fmin": fmin, "fmax": fmax, "alpha": alpha, "pink": draw(st.integers(0, 5)) == 5,
            "seed": draw(st.integers(0, 10 ** 6))}


def density(g, f):
    """Two-sided density of the generator output at frequencies f (white input has two-sided density 1)."""
    z1 = np.exp(-2j * np.pi * f / g.fs)
    H = np.ones_like(z1)
    for (a0, a1), (b0, b1) in zip(g._a_coeffs, g._b_coeffs):
        H = H * (a0 + a1 * z1) / (b0 + b1 * z1)
    return np.abs(H) ** 2 * g._scaling ** 2


def oracle_alpha(case):
    from speckit import noise
    if case["pink"]:
        g = noise.pink_noise(case["fs"], case["fmin"], case["fmax"], init_filter=False, seed=case["seed"])
        alpha = 1.0
    else:
        g = noise.alpha_noise(case["fs"], case["fmin"], case["fmax"], case["alpha"], init_filter=False, seed=case["seed"])
        alpha = case["alpha"]
    viol = []
    if g.alpha != alpha or g.fs != case["fs"]:
        viol.append(V("generator_parameters", alpha=g.alpha, fs=g.fs))
    lo = 4 * max(case["fmin"], g.fmin)
    hi = min(case["fmax"], g.fmax) / 4
    worst = 0.0
    decades = math.log10(case["fmax"] / case["fmin"])
    if hi > lo:
        f = np.exp(np.linspace(np.log(lo), np.log(hi), 300))
        dev = 10 * np.log10(density(g, f) * f ** alpha)
        worst = float(np.max(np.abs(dev)))
        if not worst <= 1.0:
            k = int(np.argmax(np.abs(dev)))
            viol.append(V("density_not_f_to_minus_alpha", dB=float(dev[k]), f=float(f[k]), alpha=alpha, fs=case["fs"],
                          fmin=case["fmin"], fmax=case["fmax"], sections=int(g._a_coeffs.shape[0])))
        if lo <= 1.0 <= hi:
            d1 = 10 * math.log10(float(density(g, np.array([1.0]))[0]))
            if not abs(d1) <= 1.0:
                viol.append(V("density_at_1Hz_not_1", dB=d1, alpha=alpha, fs=case["fs"], fmin=case["fmin"], fmax=case["fmax"]))
    else:
        # a band too narrow to have an interior a factor 4 inside both corners: the centre of the band, with the
        # tolerance widened to 2 dB (a one- to five-section cascade whose upper corner may sit at Nyquist deviates by
        # up to 1.6 dB there on the pinned tree; "about 1 dB" in the statement)
        fc = math.sqrt(max(case["fmin"], g.fmin) * min(case["fmax"], g.fmax))
        worst_c = abs(10 * math.log10(float(density(g, np.array([fc]))[0]) * fc ** alpha))
        if not worst_c <= 2.0:
            viol.append(V("density_not_f_to_minus_alpha_at_band_centre", dB=worst_c, f=fc, alpha=alpha, fs=case["fs"], fmin=case["fmin"],
                          fmax=case["fmax"], sections=int(g._a_coeffs.shape[0])))
    labels = ["alpha:pink" if case["pink"] else "alpha:generic"]
    if hi > lo and lo <= 1.0 <= hi:
        labels.append("alpha:1Hz-in-band")
    if decades >= 2:
        labels.append("alpha:>=2decades")
    if not hi > lo:
        labels.append("alpha:narrow-band,sections=%d" % int(g._a_coeffs.shape[0]))
    return Res(viol, decades >= 2 and hi > lo, labels, {"worst_alpha_dB": worst})


# ------------------------------------------------------------------ (b) white noise
@st.composite
def white_case(draw, tier):
    return {"psd": draw(gens.loguniform(1e-6, 1e6)), "fs": draw(gens.loguniform(1e-2, 1e5)), "seed": draw(st.integers(0, 2 ** 32 - 1)),
            "a": draw(gens.loguniform(1e-3, 1e3)), "b": draw(gens.loguniform(1e-3, 1e3))}


def oracle_white(case):
    from speckit import noise
    psd, fs, seed = case["psd"], case["fs"], case["seed"]
    n = 200000
    x = noise.white_noise(fs, psd=psd, seed=seed).get_series(n)
    viol = []
    var = float(np.mean(x ** 2))
    sigma = math.sqrt(2.0 / n)
    if not abs(var / (psd * fs) - 1.0) <= 8 * sigma:
        viol.append(V("white_variance", var=var, expected=psd * fs, rel=var / (psd * fs) - 1.0, bound=8 * sigma))
    if not abs(float(np.mean(x))) <= 8 * math.sqrt(psd * fs / n):
        viol.append(V("white_mean", mean=float(np.mean(x))))
    xs = x[:2000]
    xa = noise.white_noise(fs, psd=case["a"] * psd, seed=seed).get_series(2000)
    xb = noise.white_noise(case["b"] * fs, psd=psd, seed=seed).get_series(2000)
    if not np.all(np.abs(xa - math.sqrt(case["a"]) * xs) <= 1e-12 * np.abs(xa) + 1e-300):
        viol.append(V("white_scaling_with_psd", a=case["a"]))
    if not np.all(np.abs(xb - math.sqrt(case["b"]) * xs) <= 1e-12 * np.abs(xb) + 1e-300):
        viol.append(V("white_scaling_with_fs", b=case["b"]))
    g = noise.white_noise(fs, psd=psd, seed=seed)
    if not abs(g.rms - math.sqrt(psd * fs)) <= 1e-12 * g.rms:
        viol.append(V("white_rms_attribute", rms=g.rms))
    return Res(viol, True, ["white"])


# ------------------------------------------------------------------ (c) fftnoise
def fft_cases(tier):
    seed = int(os.environ.get("VERIF_SEED", "1"))
    reps = 3 if tier == "quick" else 10
    for N in range(2, 131):
        for r in range(reps):
            yield {"N": N, "seed": seed * 100000 + N * 10 + r, "style": ["pos", "zeros", "complex", "garbage", "zeros_garbage"][(N + r) % 5]}


def oracle_fft(case):
    from speckit import noise
    N = case["N"]
    rng = np.random.default_rng(case["seed"])
    half = N // 2
    m = rng.uniform(0.1, 5.0, half + 1)
    if case["style"] in ("zeros", "zeros_garbage"):
        m[rng.uniform(0, 1, half + 1) < 0.4] = 0.0
    f = np.zeros(N, dtype=complex)
    f[: half + 1] = m
    if case["style"] in ("complex", "garbage"):
        Np = (N - 1) // 2
        f[1:Np + 1] *= np.exp(1j * rng.uniform(0, 2 * np.pi, Np))
        if rng.uniform() < 0.5:
            f[0] = -f[0]
    if case["style"] in ("garbage", "zeros_garbage"):
        f[half + 1:] = rng.standard_normal(N - half - 1) * 100 + 1j * rng.standard_normal(N - half - 1)
    fin = f.copy()
    x = noise.fftnoise(f, rng=np.random.default_rng(case["seed"] + 1))
    viol = []
    if not np.array_equal(f, fin):
        viol.append(V("fftnoise_mutates_input", N=N))
    if x.shape != (N,) or np.iscomplexobj(x) or not np.all(np.isfinite(x)):
        viol.append(V("fftnoise_output_type", N=N, shape=list(x.shape), dtype=str(x.dtype)))
        return Res(viol, False, [])
    X = np.fft.fft(x)
    tolm = 1e-12 * max(1.0, float(m.max())) * N
    bad = np.abs(np.abs(X[: half + 1]) - m) > tolm
    if bad.any():
        k = int(np.argmax(bad))
        viol.append(V("fftnoise_magnitude", N=N, k=k, got=float(abs(X[k])), expected=float(m[k]), style=case["style"]))
    mirror = np.abs(X[1:] - np.conj(X[1:][::-1])) > tolm
    if mirror.any():
        viol.append(V("fftnoise_not_hermitian", N=N))
    nontrivial = N % 2 == 0 and m[half] != 0
    return Res(viol, nontrivial, ["fft:even" if N % 2 == 0 else "fft:odd", "fft:" + case["style"]])


# ------------------------------------------------------------------ (d) band-limited noise
@st.composite
def band_case(draw, tier):
    N = draw(st.one_of(st.integers(2, 64), gens.loguniform_int(2, 5000)))
    fs = draw(gens.loguniform(1e-2, 1e5))
    u = sorted([draw(st.floats(0, 1)), draw(st.floats(0, 1))])
    lo, hi = u[0] * fs / 2, u[1] * fs / 2
    kind = draw(st.sampled_from(["any", "any", "lo0", "hiNyq", "full", "ongrid"]))
    if kind in ("lo0", "full"):
        lo = 0.0
    if kind in ("hiNyq", "full"):
        hi = fs / 2
    if kind == "ongrid":
        k1, k2 = sorted([draw(st.integers(0, N // 2)), draw(st.integers(0, N // 2))])
        lo, hi = k1 * fs / N, k2 * fs / N
    return {"N": N, "fs": fs, "lo": lo, "hi": hi, "seed": draw(st.integers(0, 10 ** 6)), "kind": kind}


def oracle_band(case):
    from speckit import noise
    N, fs, lo, hi = case["N"], case["fs"], case["lo"], case["hi"]
    x = noise.band_limited_noise(lo, hi, samples=N, samplerate=fs, rng=np.random.default_rng(case["seed"]))
    viol = []
    if x.shape != (N,) or np.iscomplexobj(x):
        viol.append(V("band_output_type", N=N))
        return Res(viol, False, [])
    X = np.fft.fft(x)
    fr = np.abs(np.fft.fftfreq(N, d=1.0 / fs))
    inside = (fr >= lo) & (fr <= hi)
    if np.any(np.abs(X[~inside]) > 1e-12 * N):
        k = int(np.argmax(np.where(~inside, np.abs(X), 0)))
        viol.append(V("power_outside_band", N=N, k=k, mag=float(abs(X[k])), f=float(fr[k]), lo=lo, hi=hi))
    if np.any(np.abs(np.abs(X[inside]) - 1.0) > 1e-12 * N):
        k = int(np.argmax(np.where(inside, np.abs(np.abs(X) - 1.0), 0)))
        viol.append(V("in_band_magnitude_not_1", N=N, k=k, mag=float(abs(X[k])), f=float(fr[k]), lo=lo, hi=hi))
    return Res(viol, True, ["band:" + case["kind"], "band:even" if N % 2 == 0 else "band:odd"])


PARTS = [
    Part("alpha_filter", alpha_case, oracle_alpha, n_quick=300, n_thorough=4000),
    Part("white", white_case, oracle_white, n_quick=25, n_thorough=250),
    GridPart("fftnoise", fft_cases, oracle_fft),
    Part("band_limited", band_case, oracle_band, n_quick=150, n_thorough=2000),
]
QUOTAS = {"alpha:>=2decades": {"quick": 300, "thorough": 6000}, "alpha:1Hz-in-band": {"quick": 50, "thorough": 1000},
          "fft:even": {"quick": 120, "thorough": 500}, "band:hiNyq": {"quick": 30, "thorough": 500},
          "alpha:narrow-band,sections=2": {"quick": 10, "thorough": 200}}
