"""C07 - transfer-function estimates recover gain and phase with the right sign."""
import numpy as np
from hypothesis import strategies as st

from .. import gens, refs, tol
from ..api import Part, Res, V

PROPERTY_ID = "C07"
RULE = (
    "Generated two-channel analyses on every backend (numba, numpy; cuda through the simulator child): (gain) y=g*x "
    "for any record kind, g in +-10^[-3,3]: |Hxy-g| <= (bxy+|g| bx)/XX and |coh-1|<=1e-9 at bins with XX>1e3*budget; "
    "(delay) y=x delayed by d in 1..5 samples, broadband x, Lmin>=64 d: with e=Hxy*exp(+i 2 pi f d/fs)-1 the "
    "Cauchy-Schwarz bound |e| <= B := sqrt(mean|Y_k-e^{-iwd}X_k|^2/mean|X_k|^2), computed by the direct-DFT reference "
    "from the data alone, is asserted at every bin; bins with |sin(2 pi f d/fs)|>=0.5 and B<=0.25 are "
    "sign-discriminating (a conjugated H gives |e|>=0.75). Backends must agree within 2x budget. Non-trivial: gain "
    "case with >=3 powered bins and g != 1; delay case with >=5 sign-discriminating bins."
)
ASSUMPTIONS = [
    "CUDA through Numba's simulator (kernel logic only)",
    "the delay bound is rigorous (no statistical tolerance); it is informative only where the edge effect B is small",
]
SHARDS_QUICK = 4
SHARDS_CUDASIM = 4


@st.composite
def gain_case(draw, tier, backends, Nmax):
    N = draw(gens.loguniform_int(32, Nmax))
    cfg = draw(gens.analysis_config(N, backends=(backends[0],), Jmax=12 if backends[0] == "cuda" else 40, Kmax=20))
    g = draw(st.one_of(st.sampled_from([2.0, -1.0, 1.0, -0.5, 1e3, 1e-3]), gens.loguniform(1e-3, 1e3)))
    if draw(st.booleans()):
        g = -g
    return {"N": N, "cfg": cfg, "fs": draw(st.sampled_from([1.0, 10.0, 0.37])), "g": g,
            "rec": draw(gens.record(N, allow_list=False)), "backends": list(backends)}


def _pick(nf, n=40):
    return list(range(nf)) if nf <= n else sorted(set(int(round(i * (nf - 1) / (n - 1.0))) for i in range(n)))


def oracle_gain(case):
    x = gens.materialise(case["rec"])
    g, cfg, fs = case["g"], case["cfg"], case["fs"]
    y = g * x
    data = np.vstack([x, y])
    wref = gens.resolve_window(cfg["win"])[1]
    viol, raw = [], {}
    powered = 0
    for be in case["backends"]:
        res = gens.make_analyzer(data, fs, cfg, backend=be).compute()
        raw[be] = res
        for j in _pick(len(res.f)):
            L = int(res.L[j])
            D = np.asarray(res.D[j], dtype=np.int64)
            om = 2 * np.pi * float(res.f[j]) / fs
            w = wref(L, cfg["psll"])
            Sx = tol.seg_scale(x, D, L, w, cfg["order"])
            bx = tol.budget2(L, om, Sx, len(D))
            XX = float(res.XX[j])
            if XX > 1e3 * bx:
                powered += be == case["backends"][0]
                H = complex(res.Hxy[j])
                hb = (abs(g) * bx * 2 + abs(g) * bx) / XX * 4 + 1e-13 * abs(g)
                if not abs(H - g) <= hb:
                    viol.append(V("gain_not_recovered", backend=be, H=H, g=g, bound=hb, bin=int(j), L=L, order=cfg["order"]))
                    break
                if not abs(float(res.coh[j]) - 1.0) <= 1e-9 + 8 * abs(g) * bx * 3 / (abs(g) * XX):
                    viol.append(V("coherence_not_one_for_pure_gain", backend=be, coh=float(res.coh[j]), bin=int(j), L=L))
                    break
    _agree(raw, case, x, y, wref, viol)
    labels = ["gain:%s,o=%d,%s" % (",".join(case["backends"]), cfg["order"], cfg["scheduler"])]
    return Res(viol, powered >= 3 and g != 1.0, labels)


def _agree(raw, case, x, y, wref, viol):
    bes = list(raw)
    cfg, fs = case["cfg"], case["fs"]
    if len(bes) < 2:
        return
    a, b = raw[bes[0]], raw[bes[1]]
    if len(a.f) != len(b.f):
        viol.append(V("backends_disagree", what="nf"))
        return
    for j in _pick(len(a.f), 20):
        L = int(a.L[j])
        D = np.asarray(a.D[j], dtype=np.int64)
        om = 2 * np.pi * float(a.f[j]) / fs
        w = wref(L, cfg["psll"])
        Sx = tol.seg_scale(x, D, L, w, cfg["order"])
        Sy = tol.seg_scale(y, D, L, w, cfg["order"])
        bxy = tol.budget2(L, om, (Sx ** 0.5 * Sy ** 0.5), len(D))
        if not abs(complex(a.XY[j]) - complex(b.XY[j])) <= 4 * bxy:
            viol.append(V("backends_disagree", a=bes[0], b=bes[1], XYa=complex(a.XY[j]), XYb=complex(b.XY[j]), bin=int(j),
                          budget=4 * bxy))
            return


@st.composite
def delay_case(draw, tier, backends, Nmax):
    d = draw(st.integers(1, 5))
    N = draw(gens.loguniform_int(min(max(600, 200 * d), Nmax), Nmax))
    cfg = draw(gens.analysis_config(N, schedulers=("ltf", "vectorized_ltf", "new_ltf", "lpsd"), backends=(backends[0],),
                                    Jmax=14 if backends[0] == "cuda" else 60, Kmax=20))
    cfg["Lmin"] = draw(st.integers(64 * d, max(64 * d, N // 3)))
    band = None
    if draw(st.integers(0, 2)) == 2:
        u = sorted([draw(st.floats(0.05, 0.6)), draw(st.floats(0.3, 1.0))])
        band = u
    return {"N": N, "cfg": cfg, "fs": draw(st.sampled_from([1.0, 10.0, 0.37])), "d": d, "band_u": band,
            "rec": draw(gens.record(N, kinds=["noise", "noise", "ar1"], allow_list=False, scale=False)),
            "backends": list(backends)}


def oracle_delay(case):
    x = gens.materialise(case["rec"])
    d, cfg, fs, N = case["d"], case["cfg"], case["fs"], case["N"]
    y = np.concatenate([np.zeros(d), x[:-d]])
    data = np.vstack([x, y])
    wref = gens.resolve_window(cfg["win"])[1]
    viol, raw = [], {}
    ndisc = 0
    worst = 0.0
    extra = {}
    if case.get("band_u"):
        # a band-restricted plan (keeps a strict subset of the bins): still "a plan" for this property
        ff = np.asarray(gens.make_analyzer(data, fs, cfg).plan()["f"])
        lo = float(ff[int(case["band_u"][0] * (len(ff) - 1) * 0.5)])
        hi = float(ff[max(int(case["band_u"][1] * (len(ff) - 1)), int(case["band_u"][0] * (len(ff) - 1) * 0.5))])
        extra = {"band": (lo, hi)}
    for be in case["backends"]:
        res = gens.make_analyzer(data, fs, cfg, backend=be, **extra).compute()
        raw[be] = res
        for j in _pick(len(res.f)):
            L = int(res.L[j])
            D = np.asarray(res.D[j], dtype=np.int64)
            f = float(res.f[j])
            om = 2 * np.pi * f / fs
            w = wref(L, cfg["psll"])
            ref = refs.dft_stats(x, y, D, L, w, om, cfg["order"])
            X, Y = ref["X"], ref["Y"]
            mx = float(np.mean(np.abs(X) ** 2))
            Sx = tol.seg_scale(x, D, L, w, cfg["order"])
            bx = tol.budget2(L, om, Sx, len(D))
            if not mx > 1e3 * bx:
                continue
            B = float(np.sqrt(np.mean(np.abs(Y - np.exp(-1j * om * d) * X) ** 2) / mx))
            H = complex(res.Hxy[j])
            e = abs(H * np.exp(1j * om * d) - 1.0)
            slack = 8 * (1 + abs(H)) * bx / mx + 1e-12
            if not e <= B + slack:
                viol.append(V("delay_phase_or_magnitude", backend=be, H=H, expected=complex(np.exp(-1j * om * d)), e=e, B=B,
                              bin=int(j), L=L, d=d, f=f, order=cfg["order"], sched=cfg["scheduler"]))
                break
            if B <= 0.25 and abs(np.sin(om * d)) >= 0.5:
                ndisc += be == case["backends"][0]
                worst = max(worst, e / max(B, 1e-300))
                # the literal statement: phase -w d and magnitude 1 up to the edge effect
                ph_err = abs(np.angle(H * np.exp(1j * om * d)))
                if not (ph_err <= np.arcsin(min(1.0, B + slack)) + 1e-12 and abs(abs(H) - 1.0) <= B + slack):
                    viol.append(V("delay_phase_sign", backend=be, phase=float(np.angle(H)), expected=float(-om * d),
                                  mag=abs(H), B=B, bin=int(j)))
                    break
    _agree(raw, case, x, y, wref, viol)
    labels = ["delay:%s,o=%d,%s,d=%d" % (",".join(case["backends"]), cfg["order"], cfg["scheduler"], d)]
    if ndisc >= 5:
        labels.append("delay:sign-discriminating")
    if extra:
        labels.append("delay:band-restricted")
    return Res(viol, ndisc >= 5, labels, {"worst_e_over_B": worst})


def _mk(fn, backends, Nq, Nt):
    return lambda tier: fn(tier, backends, Nq if tier == "quick" else Nt)


PARTS = [
    Part("gain", _mk(gain_case, ("numba", "numpy"), 3000, 30000), oracle_gain, n_quick=80, n_thorough=800),
    Part("delay", _mk(delay_case, ("numba", "numpy"), 6000, 60000), oracle_delay, n_quick=50, n_thorough=500),
    Part("gain_cuda", _mk(gain_case, ("cuda", "numba"), 300, 1000), oracle_gain, n_quick=6, n_thorough=40, env="cudasim"),
    Part("delay_cuda", _mk(delay_case, ("cuda", "numba"), 1200, 2000), oracle_delay, n_quick=4, n_thorough=30, env="cudasim"),
]
QUOTAS = {"delay:sign-discriminating": {"quick": 100, "thorough": 2000}, "part:gain": {"quick": 150, "thorough": 3000},
          "part:delay_cuda": {"quick": 4, "thorough": 40}}
