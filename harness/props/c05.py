"""C05 - a computed spectrum is the reference estimator applied to its own plan."""
import numpy as np
from hypothesis import strategies as st

from .. import gens, refs, tol
from ..api import Part, Res, V

PROPERTY_ID = "C05"
RULE = (
    "Hypothesis-generated analyses (record x scheduler x window x order x backend x overlap/bmin/Lmin/Jdes/Kdes; auto "
    "and cross) through SpectrumAnalyzer.compute(), compute_single_bin(freq, L=|fres=) and band-restricted "
    "compute(). Every bin (all when nf<=80, else 40 incl. first/last) is re-evaluated by R-DFT at f[j] with L[j], "
    "D[j] and the window rebuilt from its definition (Kaiser: kaiser(L+1, alpha(psll)*pi)[:-1]); XX/YY/XY/M2 within "
    "the rounding budget, S12==(sum w)^2, S2==sum w^2 (rtol 1e-12), result plan fields == analyzer.plan(). Band: every "
    "per-bin field equals the masked field of the unrestricted analysis; an empty band raises ValueError. "
    "One configuration in five uses a user-written scheduler whose bins share (L,K) but not their starts; numeric arguments "
    "and single-bin requests are also spelled as numpy float32/float64/int scalars (the request is the value the scalar "
    "denotes); a `sweep` part verifies several single-bin results of one analyzer after all calls were made; order 0 uses "
    "the centred-scale budget of C01. "
    "Non-trivial: plan with >=3 distinct L and a Kaiser window, or a band keeping a strict non-empty subset, or a "
    "single-bin request with K>=2; distinct by case hash."
)
ASSUMPTIONS = [
    "flat-top windows are unreachable on the pinned tree (speckit.flattop.win_dict is empty); keys are enumerated at run time",
    "CUDA backend is covered by C01/C07/C08 (simulator cost); C05 uses numba and numpy",
]
SHARDS_QUICK = 4

REL_W = ["indep", "indep", "delay", "partial", "partial", "gain", "same", "yzero"]


def window_names():
    names = list(gens.WIN_NAMES)
    try:
        from speckit.flattop import win_dict
        names += ["flattop:" + k for k in win_dict]
    except Exception:
        pass
    return names


@st.composite
def case_full(draw, tier):
    N = draw(st.one_of(st.integers(16, 300), gens.loguniform_int(300, 6000 if tier == "quick" else 60000)))
    if tier == "thorough" and draw(st.integers(0, 19)) == 19:
        N = draw(st.integers(70000, 300000))          # a few records with segment lengths beyond 2^16
    mode = draw(st.sampled_from(["auto", "csd", "csd"]))
    cfg = draw(gens.analysis_config(N, Jmax=120 if N < 70000 else 40, Kmax=60 if N < 70000 else 8, custom=True))
    if N >= 70000:
        cfg["backend"] = "numba"      # (the NumPy fallback gathers a K x L matrix per bin: minutes per analysis at this length)
    case = {"N": N, "mode": mode, "cfg": cfg, "fs": draw(st.sampled_from([1.0, 2.0, 1000.0, 0.37, 2.0 ** -6])),
            "rec": draw(gens.pair(N, rel_kinds=REL_W) if mode == "csd" else gens.record(N))}
    return case


@st.composite
def case_single(draw, tier):
    case = draw(case_full(tier))
    N = case["N"]
    case["by"] = draw(st.sampled_from(["L", "fres"]))
    case["L"] = draw(st.one_of(st.integers(1, N), st.sampled_from([1, 2, N, max(1, N // 2)]),
                               st.sampled_from([64, 128, 256, 512, 1024, 2048]).map(lambda v: min(v, N))))
    case["fbin"] = draw(st.one_of(st.sampled_from([0.0, 0.5, 0.25]), st.floats(0.0, 0.5), st.floats(0.0, 0.5),
                                  st.floats(0.5, 1.9), st.sampled_from([0.625, 0.75, 1.0, 1.5])))   # above Nyquist: admissible (warning only)
    if case["by"] == "fres":
        case["fres_jitter"] = draw(st.floats(-0.3, 0.3))     # fres = fs/(L+jitter)
    # spelling of the request: python numbers, or numpy scalars (float32: the request is the value it denotes)
    case["argtype"] = draw(st.sampled_from(["plain", "plain", "plain", "np64", "np32", "np32"]))
    return case


def _spell(how, v):
    if how == "np32":
        a = np.float32(v)
        return a, float(a)
    if how == "np64":
        return np.float64(v), float(v)
    return float(v), float(v)


@st.composite
def case_band(draw, tier):
    case = draw(case_full(tier))
    case["u"] = sorted([draw(st.floats(0.0, 1.0)), draw(st.floats(0.0, 1.0))])
    case["snap"] = [draw(st.booleans()), draw(st.booleans())]
    return case


def _data(case):
    if case["mode"] == "csd":
        x, y = gens.materialise_pair(case["rec"])
        return x, y, np.vstack([x, y])
    x = gens.materialise(case["rec"])
    return x, None, x


def _wref(cfg):
    return gens.resolve_window(cfg["win"])[1]


def check_bins(res, x, y, fs, cfg, mode, idxs, viol, where):
    wref = _wref(cfg)
    worst = 0.0
    for j in idxs:
        L = int(res.L[j])
        D = np.asarray(res.D[j], dtype=np.int64)
        f = float(res.f[j])
        om = 2 * np.pi * f / fs
        w = wref(L, cfg["psll"])
        ref = refs.dft_stats(x, y, D, L, w, om, cfg["order"])
        bx, by, bxy, b4 = tol.budgets(x, y, D, L, w, om, cfg["order"], ref)
        XY = complex(res.XY[j])
        for name, a, b, bud in (("XX", float(res.XX[j]), ref["XX"], bx), ("YY", float(res.YY[j]), ref["YY"], by),
                                ("ReXY", XY.real, ref["XY"].real, bxy), ("ImXY", XY.imag, ref["XY"].imag, bxy),
                                ("M2", float(res.M2[j]), ref["M2"], tol.budget_m2(bxy if y is not None else bx, ref["M2"], b4))):
            if not (abs(a - b) <= bud):
                viol.append(V("bin_ne_reference", where=where, stat=name, got=a, ref=b, budget=bud, bin=int(j), L=L,
                              K=len(D), f=f, order=cfg["order"], backend=cfg["backend"], win=cfg["win"], sched=cfg["scheduler"]))
                return worst
            worst = max(worst, abs(a - b) / bud * tol.C)
        s1, s2 = float(np.sum(w)), float(np.sum(w * w))
        if abs(float(res.S12[j]) - s1 * s1) > 1e-12 * s1 * s1 + 1e-300 or abs(float(res.S2[j]) - s2) > 1e-12 * s2 + 1e-300:
            viol.append(V("window_sums", where=where, bin=int(j), L=L, S12=float(res.S12[j]), S2=float(res.S2[j]),
                          ref_S12=s1 * s1, ref_S2=s2, win=cfg["win"]))
            return worst
    return worst


def pick_bins(nf):
    if nf <= 80:
        return list(range(nf))
    return sorted(set([0, 1, nf - 2, nf - 1] + [int(round(i * (nf - 1) / 35.0)) for i in range(36)]))


PLAN_FIELDS = ("f", "r", "b", "L", "K", "navg", "O")


def oracle_full(case):
    fs, cfg, mode = case["fs"], case["cfg"], case["mode"]
    x, y, data = _data(case)
    an = gens.make_analyzer(data, fs, cfg)
    res = an.compute()
    plan = an.plan()
    viol = []
    nf = len(res.f)
    for k in PLAN_FIELDS:
        if not np.array_equal(np.asarray(getattr(res, k)), np.asarray(plan[k])):
            viol.append(V("result_plan_field_differs", field=k))
    if len(res.D) != nf or any(not np.array_equal(np.asarray(a), np.asarray(b)) for a, b in zip(res.D, plan["D"])):
        viol.append(V("result_plan_field_differs", field="D"))
    worst = 0.0
    if not viol:
        worst = check_bins(res, x, y, fs, cfg, mode, pick_bins(nf), viol, "compute")
    # the one-call wrappers are the same estimator
    import speckit
    win = gens.resolve_window(cfg["win"])[0]
    kw = dict(olap=cfg["olap"], bmin=cfg["bmin"], Lmin=cfg["Lmin"], Jdes=cfg["Jdes"], Kdes=cfg["Kdes"], order=cfg["order"],
              psll=cfg["psll"], win=win, scheduler=gens.scheduler_arg(cfg), backend=cfg["backend"])
    for wname in ("compute_spectrum", "lpsd"):
        r2 = getattr(speckit, wname)(data, fs, **kw)
        if len(r2.f) != nf or any(not np.array_equal(np.asarray(getattr(r2, k)), np.asarray(getattr(res, k))) for k in ("f", "L", "XX", "YY", "XY", "M2")):
            viol.append(V("wrapper_differs_from_analyzer", wrapper=wname))
    nL = len(set(np.asarray(res.L).tolist()))
    nontrivial = nL >= 3 and "kaiser" in cfg["win"]
    labels = ["full:%s,%s,o=%d,%s" % (cfg["backend"], cfg["scheduler"], cfg["order"], mode), "win:" + cfg["win"],
              "cell:%s,o=%d" % (cfg["backend"], cfg["order"])]
    if nL >= 3:
        labels.append("distinctL>=3")
    if cfg.get("sched_as") == "custom":
        labels.append("full:custom-scheduler:" + cfg["custom"]["style"])
    return Res(viol, nontrivial, labels, {"worst_err_in_eps_L_g_S": worst})


@st.composite
def case_sweep(draw, tier):
    case = draw(case_full(tier))
    N = case["N"]
    case["L"] = draw(st.one_of(st.integers(2, N), st.sampled_from([16, 64, 128]).map(lambda v: min(v, N))))
    case["fbins"] = draw(st.lists(st.floats(0.0, 0.5), min_size=2, max_size=5))
    case["with_full"] = draw(st.booleans())
    return case


def oracle_sweep(case):
    """A frequency sweep on one analyzer at a fixed segment length (optionally with a full analysis in between): every
    result is verified AFTER all calls were made - an earlier result must keep its own statistics."""
    fs, cfg, mode = case["fs"], case["cfg"], case["mode"]
    x, y, data = _data(case)
    an = gens.make_analyzer(data, fs, cfg)
    results = []
    for k, fb in enumerate(case["fbins"]):
        results.append(an.compute_single_bin(fb * fs, L=case["L"]))
        if case["with_full"] and k == 0:
            results.append(an.compute())
    viol = []
    for r in results:
        idx = [0] if len(r.f) == 1 else pick_bins(len(r.f))[:8]
        check_bins(r, x, y, fs, cfg, mode, idx, viol, "sweep")
        if viol:
            break
    for r, fb in zip([r for r in results if len(r.f) == 1], case["fbins"]):
        if float(r.f[0]) != fb * fs:
            viol.append(V("sweep_result_frequency_changed", f=float(r.f[0]), expected=fb * fs))
    return Res(viol, True, ["sweep:%s,o=%d,%s" % (cfg["backend"], cfg["order"], mode), "sweep:with-full" if case["with_full"] else "sweep:single-only"])


def oracle_single(case):
    fs, cfg, mode, N = case["fs"], case["cfg"], case["mode"], case["N"]
    x, y, data = _data(case)
    an = gens.make_analyzer(data, fs, cfg)
    how = case.get("argtype", "plain")
    freq_arg, freq = _spell(how, case["fbin"] * fs)     # `freq`: the number the argument denotes
    Lreq = int(case["L"])
    if case["by"] == "L":
        res = an.compute_single_bin(freq_arg, L=(Lreq if how == "plain" else np.int64(Lreq)))
        Lexp_lo = Lexp_hi = Lreq
        fres = fs / Lreq
    else:
        fres = fs / (Lreq + case["fres_jitter"])
        if fs / fres > N + 0.5:
            fres = fs / N
        fres_arg, fres = _spell(how, fres)
        ideal = min(fs / fres, float(N))
        res = an.compute_single_bin(freq_arg, fres=fres_arg)
        Lexp_lo, Lexp_hi = max(1, int(np.floor(ideal - 0.5 - 1e-9))), max(1, int(np.ceil(ideal + 0.5 + 1e-9)))
    viol = []
    if len(res.f) != 1:
        viol.append(V("single_bin_not_length_1", n=len(res.f)))
        return Res(viol, False, [])
    L = int(res.L[0])
    D = np.asarray(res.D[0], dtype=np.int64)
    if not (Lexp_lo <= L <= Lexp_hi) or (case["by"] == "fres" and abs(L - fs / fres) > 0.5 + 1e-9 and L != 1):
        viol.append(V("single_bin_L", by=case["by"], L=L, requested=Lreq, fres=fres))
    if float(res.f[0]) != freq:
        viol.append(V("single_bin_f", f=float(res.f[0]), requested=freq))
    if D.size < 1 or D.min() < 0 or D.max() + L > N or int(res.K[0]) != D.size or int(res.navg[0]) != D.size:
        viol.append(V("single_bin_segmentation", L=L, K=int(res.K[0]), navg=int(res.navg[0]), nD=int(D.size)))
    worst = 0.0
    if not viol:
        worst = check_bins(res, x, y, fs, cfg, mode, [0], viol, "single_bin:" + case["by"])
    labels = ["single:%s,o=%d,%s,by=%s" % (cfg["backend"], cfg["order"], mode, case["by"]), "win:" + cfg["win"],
              "cell:%s,o=%d" % (cfg["backend"], cfg["order"])]
    if case["fbin"] > 0.5:
        labels.append("single:above-nyquist")
    labels.append("single:argtype=" + how)
    return Res(viol, D.size >= 2, labels, {"worst_err_in_eps_L_g_S": worst})


RAW = ("XX", "YY", "XY", "M2", "S12", "S2")


def oracle_band(case):
    fs, cfg, mode = case["fs"], case["cfg"], case["mode"]
    x, y, data = _data(case)
    full = gens.make_analyzer(data, fs, cfg).compute()
    ff = np.asarray(full.f)
    lo_all, hi_all = np.log(ff[0]) - 0.2, np.log(ff[-1]) + 0.2
    edges = []
    for u, snap in zip(case["u"], case["snap"]):
        v = float(np.exp(lo_all + u * (hi_all - lo_all)))
        if snap:
            v = float(ff[int(np.argmin(np.abs(ff - v)))])
        edges.append(v)
    lo, hi = min(edges), max(edges)
    mask = (ff >= lo) & (ff <= hi)
    viol = []
    labels = ["band:%s,%s,%s" % (cfg["backend"], cfg["scheduler"], mode)]
    an = gens.make_analyzer(data, fs, cfg, band=(lo, hi))
    if not mask.any():
        labels.append("band:empty")
        try:
            an.compute()
        except ValueError:
            return Res(viol, False, labels)
        viol.append(V("empty_band_does_not_raise", band=[lo, hi]))
        return Res(viol, False, labels)
    res = an.compute()
    idx = np.nonzero(mask)[0]
    if len(res.f) != len(idx):
        viol.append(V("band_bins_differ", n_band=len(res.f), n_expected=int(len(idx)), band=[lo, hi]))
        return Res(viol, False, labels)
    for k in PLAN_FIELDS:
        if not np.array_equal(np.asarray(getattr(res, k)), np.asarray(getattr(full, k))[idx]):
            viol.append(V("band_field_misaligned", field=k, band=[lo, hi]))
    for a, j in zip(res.D, idx):
        if not np.array_equal(np.asarray(a), np.asarray(full.D[j])):
            viol.append(V("band_field_misaligned", field="D", bin=int(j), band=[lo, hi]))
            break
    for k in RAW:
        a, b = np.asarray(getattr(res, k)), np.asarray(getattr(full, k))[idx]
        scale = np.maximum(np.abs(b), np.sqrt(np.abs(np.asarray(full.XX)[idx] * np.asarray(full.YY)[idx])) if k == "XY" else np.abs(b))
        if not np.all(np.abs(a - b) <= 1e-10 * scale + 1e-300):
            viol.append(V("band_value_differs", field=k, band=[lo, hi], bin=int(idx[int(np.argmax(np.abs(a - b)))])))
    strict = 0 < len(idx) < len(ff)
    if strict:
        labels.append("band:strict-subset")
    if any(case["snap"]):
        labels.append("band:edge-on-grid")
    # the band-restricted result must itself be the reference estimator on its plan
    if not viol:
        check_bins(res, x, y, fs, cfg, mode, pick_bins(len(res.f))[:12], viol, "band")
    return Res(viol, strict, labels)


PARTS = [
    Part("full", case_full, oracle_full, n_quick=60, n_thorough=120),
    Part("single", case_single, oracle_single, n_quick=150, n_thorough=600),
    Part("band", case_band, oracle_band, n_quick=50, n_thorough=80),
    Part("sweep", case_sweep, oracle_sweep, n_quick=40, n_thorough=60),
]
QUOTAS = {"single:above-nyquist": {"quick": 60, "thorough": 1000}, "distinctL>=3": {"quick": 100, "thorough": 600}, "band:strict-subset": {"quick": 60, "thorough": 400},
          "band:empty": {"quick": 3, "thorough": 50}, "win:kaiser": {"quick": 20, "thorough": 200}}
for _b in ("numba", "numpy"):
    for _o in (-1, 0, 1, 2):
        QUOTAS["cell:%s,o=%d" % (_b, _o)] = {"quick": 20, "thorough": 300}
