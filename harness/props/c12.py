"""C12 - the Kaiser window delivers the requested side-lobe suppression."""
import math

import numpy as np
from hypothesis import strategies as st

from .. import gens, refs
from ..api import Part, Res, V

PROPERTY_ID = "C12"
RULE = (
    "Generated (P in [40,200], L in [64,8192] (thorough 32768), N in [L,3L], amplitude, phase, sinusoid bin b0, "
    "analysis bins b with |b-b0| > sqrt(1+alpha^2) (first side lobes, random offsets, near DC / Nyquist), fs, "
    "backend, Kaiser spelled 'kaiser' / np.kaiser / scipy kaiser). Two measurements through compute_single_bin: "
    "(1) quadrature pair (A cos t, A sin t): P+- = XX+YY+-2 Im XY are the responses to exp(+-it) alone; whenever both "
    "circular distances exceed the main lobe both must be <= 10^(-(P-1)/10) x the on-frequency response "
    "(sign-convention independent); (2) real sinusoid through `ps`: ratio to the on-frequency ps <= -(P-1) dB + "
    "6.02 dB (two images add at most in amplitude; strict -(P-1) dB when the image term computed from the specified "
    "window is negligible). Detrend order -1 (the property concerns the window); orders 0-2 are exercised with "
    "both frequencies at least 2 main lobes + 2 bins from DC. In 3 of 5 cases an unrelated analyzer with another window/psll/order is built and used (or a module-level wrapper is "
    "called) after the analyzers under test were constructed. Non-trivial: offset within 3 main lobes (first side "
    "lobes) or P>=150 (numerical floor)."
)
ASSUMPTIONS = [
    "premise measured on the specified window kaiser(L+1, alpha(P) pi)[:-1]: its true peak side lobe is within 0.94 dB of P "
    "(worst at L=64, P=194), so P-1 dB is attainable with >=0.06 dB margin",
]
SHARDS_QUICK = 4


@st.composite
def case_(draw, tier):
    P = draw(st.one_of(st.floats(40, 200), st.sampled_from([40.0, 100.0, 150.0, 194.0, 200.0])))
    al = refs.kaiser_alpha(P)
    ml = math.sqrt(1 + al * al)
    order = draw(st.sampled_from([-1, -1, -1, 0, 1, 2]))
    L = draw(st.one_of(st.sampled_from([64, 65, 100, 128, 257]), gens.loguniform_int(64, 8192 if tier == "quick" else 32768)))
    N = draw(st.integers(L, 3 * L))
    lo = 0.0 if order == -1 else 2 * ml + 2
    hi = L / 2.0 - lo
    b0 = lo + draw(st.floats(0, 1)) * (hi - lo)
    offs = []
    for _ in range(6):
        kind = draw(st.sampled_from(["first", "first", "near", "any", "edge"]))
        if kind == "first":
            d = ml * (1 + draw(st.floats(1e-6, 0.6)))
        elif kind == "near":
            d = ml * (1 + draw(st.floats(0.6, 2.0)))
        elif kind == "edge":
            d = ml + 1e-9 * L
        else:
            d = ml + draw(st.floats(0, 1)) * (L / 2.0 - ml)
        offs.append(d if draw(st.booleans()) else -d)
    return {"P": P, "order": order, "L": L, "N": N, "b0": b0, "offs": offs, "A": draw(gens.loguniform(1e-3, 1e3)),
            "phi": draw(st.floats(0, 2 * math.pi)), "fs": draw(st.sampled_from([1.0, 2.0, 1000.0, 0.3])),
            "backend": draw(st.sampled_from(["numba", "numba", "numpy"])),
            "win": draw(st.sampled_from(["kaiser", "np.kaiser", "sp.kaiser"])), "olap": draw(st.sampled_from(["default", 0.0, 0.5])),
            "fres_jitter": draw(st.sampled_from([0.0, 0.0, 0.3, -0.4, 0.45])),
            # an unrelated analyzer (other window/psll/order) is created and used after the two under test were built
            "decoy": draw(st.sampled_from([None, None, {"psll": 40, "win": "kaiser", "order": 2}, {"psll": 60, "win": "hann", "order": 0},
                                           {"psll": 90, "win": "kaiser", "order": -1, "wrapper": True}]))}


def oracle(case):
    from speckit import SpectrumAnalyzer
    P, L, N, fs, A, order = case["P"], case["L"], case["N"], case["fs"], case["A"], case["order"]
    al = refs.kaiser_alpha(P)
    ml = math.sqrt(1 + al * al)
    lo = 0.0 if order == -1 else 2 * ml + 2
    b0 = case["b0"]
    n = np.arange(N)
    th = 2 * np.pi * b0 * n / L + case["phi"]
    xc, xs = A * np.cos(th), A * np.sin(th)
    win = gens.resolve_window(case["win"])[0]
    kw = dict(order=order, psll=P, win=win, olap=case["olap"], backend=case["backend"])
    anq = SpectrumAnalyzer(np.vstack([xc, xs]), fs, **kw)
    anr = SpectrumAnalyzer(xs, fs, **kw)
    if case.get("decoy"):
        dk = case["decoy"]
        if dk.get("wrapper"):
            import speckit
            speckit.compute_single_bin(xc[:max(64, N // 2)], 2.0 * fs, 0.1 * fs, L=64, psll=dk["psll"], win=dk["win"], order=dk["order"])
        else:
            other = SpectrumAnalyzer(xc[:max(64, N // 2)], 2.0 * fs, psll=dk["psll"], win=dk["win"], order=dk["order"], Jdes=10, Kdes=4)
            other.compute_single_bin(0.1 * fs, L=64)
    w = refs.kaiser_window(L, P)
    W0 = float(np.sum(w))
    nn = np.arange(L)

    jit = case.get("fres_jitter")

    def pq(b):
        if jit:      # the same segment length requested through a resolution whose fs/fres is not an integer
            r = anq.compute_single_bin(b * fs / L, fres=fs / (L + jit))
        else:
            r = anq.compute_single_bin(b * fs / L, L=L)
        XX, YY, XY = float(r.XX[0]), float(r.YY[0]), complex(r.XY[0])
        return XX + YY + 2 * XY.imag, XX + YY - 2 * XY.imag

    on = max(pq(b0))
    ps_on = float(anr.compute_single_bin(b0 * fs / L, L=L).ps[0])
    viol, nontrivial, worst = [], False, -1e9
    lim = 10 ** (-(P - 1) / 10.0)
    labels = ["P>=150" if P >= 150 else "P<150", "order:%d" % order, "be:" + case["backend"]]
    for d in case["offs"]:
        b = b0 + d
        if not (lo <= b <= L / 2.0 - lo):
            b = b0 - d
        if not (lo <= b <= L / 2.0 - lo):
            continue
        d1 = abs(b - b0)
        d2 = min(b + b0, L - (b + b0))          # circular distance to the image at -b0
        if d1 <= ml or d2 <= ml:
            continue
        pp, pm = pq(b)
        if d1 <= 3 * ml or P >= 150:
            nontrivial = True
        if d1 <= 1.6 * ml:
            labels.append("first-sidelobe")
        for name, val in (("P+", pp), ("P-", pm)):
            ratio = val / on
            if ratio > 0:
                worst = max(worst, 10 * math.log10(ratio) + P)
            if not ratio <= lim:
                viol.append(V("sidelobe_quadrature", which=name, dB=10 * math.log10(max(ratio, 1e-300)), required=-(P - 1), P=P,
                              L=L, b0=b0, b=b, offset=d1, image_offset=d2, order=order, backend=case["backend"]))
        # real sinusoid through ps (needs a well-defined on-frequency response: b0 outside the main lobe of DC/Nyquist)
        if not (ml <= b0 <= L / 2.0 - ml) or not ps_on > 0:
            continue
        ps = float(anr.compute_single_bin(b * fs / L, L=L).ps[0])
        img = abs(np.sum(w * np.exp(-2j * np.pi * (b + b0) * nn / L))) / W0
        allow = 1.0 if img < 0.005 * 10 ** (-P / 20.0) else 4.0
        # (the strict branch still has to allow the image's small contribution)
        if not ps / ps_on <= lim * allow * (1.011 if allow == 1.0 else 1.0):
            viol.append(V("sidelobe_real_sinusoid", dB=10 * math.log10(max(ps / ps_on, 1e-300)), required=-(P - 1), P=P, L=L,
                          b0=b0, b=b, offset=d1, image_offset=d2, order=order, strict=allow == 1.0, backend=case["backend"]))
    from .. import tol as _tol
    om0 = 2 * np.pi * b0 / L
    on_tol = 1e-9 + _tol.C * _tol.EPS * L * _tol.growth(L, om0)      # rounding budget of the recurrence at length L
    if not viol and not (abs(on / (A * A * W0 * W0) - 1) <= (on_tol if order == -1 else 1e-2)):
        viol.append(V("on_frequency_response", got=on, expected=A * A * W0 * W0, P=P, L=L))
    return Res(viol, nontrivial, sorted(set(labels)), {"worst_sidelobe_dB_above_-P": worst})


# ------------------------------------------------------------------ the same through full plans (compute())
@st.composite
def plan_case(draw, tier):
    P = draw(st.one_of(st.floats(40, 200), st.sampled_from([40.0, 100.0, 150.0, 200.0])))
    N = draw(gens.loguniform_int(256, 6000 if tier == "quick" else 40000))
    return {"P": P, "N": N, "fbin": draw(st.floats(0.0, 0.5)), "A": draw(gens.loguniform(1e-3, 1e3)),
            "phi": draw(st.floats(0, 2 * math.pi)), "fs": draw(st.sampled_from([1.0, 2.0, 1000.0])),
            "sched": draw(st.sampled_from(["ltf", "vectorized_ltf", "new_ltf", "lpsd"])),
            "Jdes": draw(st.integers(10, 150)), "Kdes": draw(st.integers(1, 40)), "Lmin": draw(st.sampled_from([1, 64, 100])),
            "backend": draw(st.sampled_from(["numba", "numpy"])), "win": draw(st.sampled_from(["kaiser", "np.kaiser", "sp.kaiser"]))}


def oracle_plan(case):
    from speckit import SpectrumAnalyzer
    P, N, fs, A = case["P"], case["N"], case["fs"], case["A"]
    al = refs.kaiser_alpha(P)
    ml = math.sqrt(1 + al * al)
    f0 = case["fbin"] * fs
    th = 2 * np.pi * case["fbin"] * np.arange(N) + case["phi"]
    win = gens.resolve_window(case["win"])[0]
    res = SpectrumAnalyzer(np.vstack([A * np.cos(th), A * np.sin(th)]), fs, order=-1, psll=P, win=win, scheduler=case["sched"],
                           Jdes=case["Jdes"], Kdes=case["Kdes"], Lmin=case["Lmin"], backend=case["backend"]).compute()
    viol, nchecked, worst, first = [], 0, -1e9, False
    lim = 10 ** (-(P - 1) / 10.0)
    cache = {}
    for j in range(len(res.f)):
        L = int(res.L[j])
        if L < 64:
            continue
        b, b0 = float(res.f[j]) * L / fs, f0 * L / fs
        d1 = abs(b - b0)
        d2 = min(b + b0, L - (b + b0))
        if d1 <= ml or d2 <= ml:
            continue
        if L not in cache:
            cache[L] = float(np.sum(refs.kaiser_window(L, P))) ** 2
        on = A * A * cache[L]
        XX, YY, XY = float(res.XX[j]), float(res.YY[j]), complex(res.XY[j])
        for name, val in (("P+", XX + YY + 2 * XY.imag), ("P-", XX + YY - 2 * XY.imag)):
            ratio = val / on
            if ratio > 0:
                worst = max(worst, 10 * math.log10(ratio) + P)
            if not ratio <= lim:
                viol.append(V("sidelobe_quadrature_plan", which=name, dB=10 * math.log10(max(ratio, 1e-300)), required=-(P - 1),
                              P=P, L=L, bin=int(j), offset=d1, image_offset=d2, sched=case["sched"], backend=case["backend"]))
                break
        nchecked += 1
        first = first or d1 <= 3 * ml
        if viol:
            break
    labels = ["plan:" + case["sched"], "P>=150" if P >= 150 else "P<150"]
    if first:
        labels.append("plan:first-sidelobes")
    return Res(viol, nchecked >= 3 and (first or P >= 150), labels, {"worst_sidelobe_dB_above_-P": worst})


# ------------------------------------------------------------------ long segments (L >= 2^16) at the 200 dB default
@st.composite
def long_case(draw, tier):
    return {"P": draw(st.sampled_from([200.0, 200.0, 195.0, 180.0])), "N": draw(st.integers(140000, 420000)),
            "fbin": draw(st.floats(2e-5, 2e-4)), "A": draw(gens.loguniform(1e-2, 1e2)), "phi": draw(st.floats(0, 2 * math.pi)),
            "fs": draw(st.sampled_from([1.0, 100.0])), "sched": draw(st.sampled_from(["ltf", "vectorized_ltf", "lpsd"])),
            "Jdes": draw(st.integers(20, 60)), "Kdes": draw(st.integers(2, 10)), "Lmin": 1,
            "backend": draw(st.sampled_from(["numba", "numba", "numpy"])), "win": draw(st.sampled_from(["kaiser", "np.kaiser"]))}


def oracle_long(case):
    """Same measurement as plan_leakage on records long enough for segment lengths beyond 2^16 (a low-frequency
    line, so that the long-L bins lie beyond the main lobes of the line and of DC)."""
    from speckit import SpectrumAnalyzer
    P, N, fs, A = case["P"], case["N"], case["fs"], case["A"]
    al = refs.kaiser_alpha(P)
    ml = math.sqrt(1 + al * al)
    th = 2 * np.pi * case["fbin"] * np.arange(N) + case["phi"]
    win = gens.resolve_window(case["win"])[0]
    res = SpectrumAnalyzer(np.vstack([A * np.cos(th), A * np.sin(th)]), fs, order=-1, psll=P, win=win, scheduler=case["sched"],
                           Jdes=case["Jdes"], Kdes=case["Kdes"], Lmin=case["Lmin"], backend=case["backend"]).compute()
    viol, nlong, worst = [], 0, -1e9
    lim = 10 ** (-(P - 1) / 10.0)
    cache = {}
    f0 = case["fbin"] * fs
    for j in range(len(res.f)):
        L = int(res.L[j])
        if L < 20000:
            continue
        b, b0 = float(res.f[j]) * L / fs, f0 * L / fs
        d1, d2 = abs(b - b0), min(b + b0, L - (b + b0))
        if d1 <= ml or d2 <= ml:
            continue
        if L not in cache:
            cache[L] = float(np.sum(refs.kaiser_window(L, P))) ** 2
        on = A * A * cache[L]
        XX, YY, XY = float(res.XX[j]), float(res.YY[j]), complex(res.XY[j])
        nlong += L >= 65536
        for name, val in (("P+", XX + YY + 2 * XY.imag), ("P-", XX + YY - 2 * XY.imag)):
            ratio = val / on
            if ratio > 0:
                worst = max(worst, 10 * math.log10(ratio) + P)
            if not ratio <= lim:
                viol.append(V("sidelobe_quadrature_long_segment", which=name, dB=10 * math.log10(max(ratio, 1e-300)), required=-(P - 1),
                              P=P, L=L, bin=int(j), offset=d1, sched=case["sched"], backend=case["backend"], N=N))
                break
        if viol:
            break
    labels = ["long:" + case["sched"], "long:P=%g" % P]
    if nlong:
        labels.append("long:L>=65536")
    return Res(viol, nlong >= 1, labels, {"worst_sidelobe_dB_above_-P_long": worst})


PARTS = [Part("leakage", case_, oracle, n_quick=300, n_thorough=2500),
         Part("plan_leakage", plan_case, oracle_plan, n_quick=60, n_thorough=600),
         Part("long_segments", long_case, oracle_long, n_quick=3, n_thorough=30, shrink=False)]
QUOTAS = {"long:L>=65536": {"quick": 4, "thorough": 100}, "plan:first-sidelobes": {"quick": 60, "thorough": 1000}, "first-sidelobe": {"quick": 400, "thorough": 3000}, "P>=150": {"quick": 100, "thorough": 2000}}
