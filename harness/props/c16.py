"""C16 - fractional time shifting is exact Lagrange interpolation."""
import math
import os
from fractions import Fraction

import numpy as np
from hypothesis import strategies as st

from .. import gens, refs
from ..api import GridPart, Part, Res, V

PROPERTY_ID = "C16"
RULE = (
    "(a) exhaustive over all odd orders 1..111 x fractional parts {0, 2^-52, 1e-12, 0.25, 0.5, 1/3, 0.999, 1-2^-53, "
    "seeded randoms}: lagrange_taps == Lagrange weights on nodes -(h-1)..h computed in exact rational arithmetic "
    "(abs 1e-13), row sums 1 (1e-12); (b) generated (record N in 2..400, odd order in 1..111, shift: fractional, "
    "integer, negative, |s|>N, +-1e-12 around integers; per-sample shift vectors smooth/random/piecewise/out of "
    "range): timeshift equals the direct per-sample evaluation with independently computed (long double product "
    "formula) weights at every output whose stencil is interior (1e-12 max|x| sum|taps|); polynomials of degree <= "
    "order are reproduced (1e-10); an integer constant shift is x[clip(n+s,0,N-1)] everywhere; zero shift returns the "
    "input; constant and time-varying paths agree on the common interior (1e-12); no exception for any shift vector; "
    "(c) df_timeshift == timeshift(column, seconds*fs) for the selected numeric columns, other columns untouched, "
    "suffix/inplace/truncate semantics; shifts are spelled as python floats, numpy float64/float32 scalars (float32 "
    "vectors) or python ints, and the reference uses the value the argument denotes; next: "
    "suffix/inplace/truncate semantics. Non-trivial: order>=3 with a non-integer shift and >=1 interior sample; "
    "negative shifts are counted as a class."
)
ASSUMPTIONS = ["the reference weights use the product formula prod_{j!=i}(d-j)/(i-j) in long double (independent of the closed form under test)"]
USES_NUMBA = False
SHARDS_QUICK = 4


def ref_weights(order, d):
    """(len(d), order+1) Lagrange weights on nodes -(h-1)..h at abscissae d (array), long double products."""
    h = (order + 1) // 2
    nodes = np.arange(-(h - 1), h + 1)
    d = np.asarray(d, dtype=np.longdouble).reshape(-1, 1)
    W = np.ones((d.shape[0], len(nodes)), dtype=np.longdouble)
    for a, i in enumerate(nodes):
        for j in nodes:
            if j != i:
                W[:, a] *= (d[:, 0] - np.longdouble(j)) / np.longdouble(i - j)
    return nodes, W


# ------------------------------------------------------------------ (a) taps, exhaustive over orders
def taps_cases(tier):
    seed = int(os.environ.get("VERIF_SEED", "1"))
    rng = np.random.default_rng(seed)
    fixed = [0.0, 2.0 ** -52, 1e-12, 0.25, 0.5, 1.0 / 3.0, 0.999, 1.0 - 2.0 ** -53]
    nrand = 4 if tier == "quick" else 24
    for order in range(1, 112, 2):
        yield {"order": order, "fracs": fixed + [float(v) for v in rng.uniform(0, 1, nrand)]}


def oracle_taps(case):
    from speckit.dsp import lagrange_taps
    order = case["order"]
    h = (order + 1) // 2
    fr = np.asarray(case["fracs"], dtype=np.float64)
    T = np.asarray(lagrange_taps(fr, h))
    viol = []
    if T.shape != (len(fr), 2 * h):
        viol.append(V("taps_shape", order=order, shape=list(T.shape)))
        return Res(viol, False, [])
    worst = 0.0
    for r, d in enumerate(fr):
        _, exact = refs.lagrange_taps_exact(order, Fraction(float(d)))
        ex = np.array([float(t) for t in exact])
        err = float(np.max(np.abs(T[r] - ex)))
        worst = max(worst, err)
        if not err <= 1e-13:
            k = int(np.argmax(np.abs(T[r] - ex)))
            viol.append(V("tap_ne_lagrange_weight", order=order, frac=float(d), tap=k, got=float(T[r, k]), exact=float(ex[k])))
            break
        if not abs(float(np.sum(T[r])) - 1.0) <= 1e-12:
            viol.append(V("taps_do_not_sum_to_one", order=order, frac=float(d), sum=float(np.sum(T[r]))))
            break
    return Res(viol, order >= 3, ["taps:order<=31" if order <= 31 else "taps:order>31"], {"worst_tap_abs_err": worst})


# ------------------------------------------------------------------ (b) shifting
@st.composite
def shift_case(draw, tier):
    order = 2 * draw(st.one_of(st.integers(0, 5), st.integers(0, 15), st.integers(0, 55))) + 1
    N = draw(st.one_of(st.integers(2, 40), st.integers(min(400, order + 3), 400), st.integers(min(400, 2 * order + 3), 400)))
    kind = draw(st.sampled_from(["frac", "frac", "frac", "int", "near_int", "big", "zero"]))
    if kind == "frac":
        s = draw(st.one_of(st.floats(-3.0, 3.0), st.floats(-N / 4.0, N / 4.0)))
    elif kind == "int":
        s = float(draw(st.integers(-N - 3, N + 3)))
    elif kind == "near_int":
        s = draw(st.integers(-5, 5)) + draw(st.sampled_from([1e-12, -1e-12, 1e-9, -1e-9]))
    elif kind == "big":
        s = draw(st.sampled_from([-1.0, 1.0])) * (N + draw(st.floats(0, 3 * N)))
    else:
        s = 0.0
    return {"N": N, "order": order, "s": s, "kind": kind, "seed": draw(st.integers(0, 2 ** 31 - 1)),
            "data": draw(st.sampled_from(["noise", "poly", "poly", "ints", "ramp"])),
            "vec": draw(st.sampled_from(["smooth", "random", "piecewise", "out_of_range", "const_vec", "nearly_const", "nearly_const"])),
            "vamp": draw(st.floats(0.0, 6.0)),
            # how the shift is spelled: python float, numpy float64 / float32 scalar (and a float32 vector), python int
            "stype": draw(st.sampled_from(["float", "float", "float", "np.float64", "np.float32", "int_if_integral"]))}


def _spell(case, s):
    """The object handed to timeshift and the real number it denotes."""
    how = case.get("stype", "float")
    if how == "np.float32":
        v = np.float32(s)
        return v, float(v)
    if how == "np.float64":
        return np.float64(s), float(s)
    if how == "int_if_integral" and float(s).is_integer() and abs(s) < 2 ** 53:
        return int(s), float(s)
    return float(s), float(s)


def _data(case):
    rng = np.random.default_rng(case["seed"])
    N, order = case["N"], case["order"]
    t = np.linspace(-1, 1, N)
    if case["data"] == "noise":
        return rng.standard_normal(N), None
    if case["data"] == "ints":
        return rng.integers(-50, 50, N).astype(np.int64), None
    if case["data"] == "ramp":
        return 3.0 * np.arange(N) - 7.0, None
    deg = min(order, 40)
    c = rng.standard_normal(deg + 1)
    return np.polynomial.chebyshev.chebval(t, c), c


def _poly_eval(case, c, pos):
    """Value of the generating polynomial at (fractional) sample positions."""
    N = case["N"]
    t = -1.0 + 2.0 * np.asarray(pos, dtype=np.float64) / (N - 1)
    return np.polynomial.chebyshev.chebval(t, c)


def direct(x, shifts, order):
    """R-LAGRANGE per-sample evaluation.  -> (values, interior mask, sum|taps|)."""
    N = len(x)
    h = (order + 1) // 2
    sh = np.broadcast_to(np.asarray(shifts, dtype=np.float64), (N,))
    k = np.floor(sh).astype(np.int64)
    d = sh - k
    nodes, W = ref_weights(order, d)
    n = np.arange(N)
    base = n + k
    interior = (base - (h - 1) >= 0) & (base + h <= N - 1)
    out = np.zeros(N, dtype=np.longdouble)
    xl = np.asarray(x, dtype=np.longdouble)
    idx = np.clip(base[:, None] + nodes[None, :], 0, N - 1)
    out = np.sum(W * xl[idx], axis=1)
    return np.asarray(out, dtype=np.float64), interior, np.asarray(np.sum(np.abs(W), axis=1), dtype=np.float64)


def _shift_vector(case):
    rng = np.random.default_rng(case["seed"] + 7)
    N, a = case["N"], case["vamp"]
    n = np.arange(N)
    if case["vec"] == "smooth":
        return a * np.sin(2 * np.pi * n / max(N, 2) * 1.5) + 0.3
    if case["vec"] == "random":
        return rng.uniform(-a, a, N)
    if case["vec"] == "piecewise":
        v = np.where(n < N // 2, -a, a + 0.5)
        v[N // 3] = 0.0
        return v
    if case["vec"] == "out_of_range":
        return rng.uniform(-3 * N, 3 * N, N)
    if case["vec"] == "nearly_const":
        # constant up to a tiny modulation / jitter (relative 1e-7, absolute 1e-9): not a constant shift
        base = case["s"] if case["s"] != 0 else 0.3
        return base * (1.0 + 1e-7 * np.sin(2 * np.pi * n / max(N, 2))) + 1e-9 * rng.standard_normal(N)
    return np.full(N, case["s"])


def oracle_shift(case):
    from speckit.dsp import timeshift
    N, order = case["N"], case["order"]
    s_arg, s = _spell(case, case["s"])      # from here on `s` is the value the argument denotes
    x, coef = _data(case)
    xin = x.copy()
    mx = float(np.max(np.abs(x))) or 1.0
    viol = []
    y = np.asarray(timeshift(x, s_arg, order=order))
    if not np.array_equal(x, xin):
        viol.append(V("timeshift_modifies_input"))
    if y.shape != (N,):
        viol.append(V("timeshift_shape", shape=list(y.shape), N=N, s=s, order=order))
        return Res(viol, False, [])
    ref, interior, sabs = direct(x, s, order)
    tolv = 1e-12 * mx * np.maximum(sabs, 1.0)
    bad = interior & (np.abs(y - ref) > tolv)
    if bad.any():
        n0 = int(np.argmax(bad))
        viol.append(V("constant_shift_ne_lagrange", n=n0, got=float(y[n0]), ref=float(ref[n0]), s=s, order=order, N=N))
    if s == 0.0 and not np.array_equal(y, x):
        viol.append(V("zero_shift_not_identity"))
    if float(s).is_integer():
        exp = np.asarray(x)[np.clip(np.arange(N) + int(s), 0, N - 1)]
        if not np.all(np.abs(y - exp) <= 1e-14 * mx):
            n0 = int(np.argmax(np.abs(y - exp)))
            viol.append(V("integer_shift_not_pure_displacement", n=n0, got=float(y[n0]), expected=float(exp[n0]), s=s, order=order, N=N))
    if coef is not None and case["data"] == "poly" and interior.any() and N > 1:
        truth = _poly_eval(case, coef, np.arange(N) + s)
        scale = max(mx, float(np.max(np.abs(truth[interior]))))
        if not np.all(np.abs(y - truth)[interior] <= 1e-10 * scale * np.maximum(sabs[interior], 1.0)):
            n0 = int(np.argmax(np.where(interior, np.abs(y - truth), 0)))
            viol.append(V("polynomial_not_reproduced", n=n0, got=float(y[n0]), truth=float(truth[n0]), s=s, order=order, N=N))
    # time-varying path
    sv = _shift_vector(case)
    sv_arg = sv
    if case.get("stype") == "np.float32":
        sv_arg = sv.astype(np.float32)
        sv = sv_arg.astype(np.float64)
    try:
        yv = np.asarray(timeshift(x, sv_arg, order=order))
    except Exception as exc:  # noqa: BLE001 - "no index error for any shift vector"
        viol.append(V("time_varying_path_raises", exc=type(exc).__name__, msg=str(exc)[:120], vec=case["vec"], order=order, N=N))
        yv = None
    if yv is not None and not np.all(sv == 0):
        refv, intv, sabsv = direct(x, sv, order)
        bad = intv & (np.abs(yv - refv) > 1e-12 * mx * np.maximum(sabsv, 1.0))
        if yv.shape != (N,):
            viol.append(V("timeshift_shape", path="varying"))
        elif bad.any():
            n0 = int(np.argmax(bad))
            viol.append(V("varying_shift_ne_lagrange", n=n0, got=float(yv[n0]), ref=float(refv[n0]), shift=float(sv[n0]), order=order, N=N,
                          vec=case["vec"]))
        if case["vec"] == "const_vec" and yv.shape == (N,):
            both = interior & intv
            if np.any(np.abs(yv - y)[both] > 1e-12 * mx * np.maximum(sabs[both], 1.0)):
                viol.append(V("constant_and_varying_paths_disagree", s=s, order=order, N=N))
    frac = not float(s).is_integer()
    labels = ["shift:" + case["kind"], "vec:" + case["vec"], "stype:" + case.get("stype", "float")]
    if s < 0:
        labels.append("shift:negative")
    if interior.any():
        labels.append("has-interior")
    return Res(viol, order >= 3 and frac and bool(interior.any()), labels)


# ------------------------------------------------------------------ (c) DataFrame wrapper
@st.composite
def df_case(draw, tier):
    return {"N": draw(st.integers(40, 300)), "fs": draw(st.sampled_from([1.0, 10.0, 0.5])), "shift": draw(st.floats(-5.0, 5.0)),
            "cols": draw(st.sampled_from([None, ["a"], ["a", "i"], ["s", "c"]])), "inplace": draw(st.booleans()),
            "truncate": draw(st.sampled_from([None, True, 3, 0])), "suffix": draw(st.sampled_from(["_shifted", "_s"])),
            "seed": draw(st.integers(0, 2 ** 31 - 1)), "zero": draw(st.integers(0, 9)) == 9,
            "index": draw(st.sampled_from(["range", "range", "sliced", "datetime"]))}


def oracle_df(case):
    import pandas as pd
    from speckit.dsp import df_timeshift, timeshift
    rng = np.random.default_rng(case["seed"])
    N, fs = case["N"], case["fs"]
    seconds = 0.0 if case["zero"] else case["shift"] / fs
    df = pd.DataFrame({"a": rng.standard_normal(N), "i": rng.integers(-9, 9, N), "c": np.cumsum(rng.standard_normal(N)),
                       "s": ["r%d" % k for k in range(N)]})
    kind = case.get("index", "range")
    if kind == "sliced":
        big = pd.concat([df, df], ignore_index=True)
        df = big.iloc[N // 2: N // 2 + N].copy()
    elif kind == "datetime":
        df = df.set_index(pd.date_range("2020-01-01", periods=N, freq="s"))
    before = df.copy(deep=True)
    out = df_timeshift(df, fs, seconds, columns=case["cols"], truncate=case["truncate"], inplace=case["inplace"], suffix=case["suffix"])
    viol = []
    if not df.equals(before):
        viol.append(V("df_timeshift_modifies_input"))
    if seconds == 0.0:
        if not out.equals(before):
            viol.append(V("df_zero_shift_not_identity"))
        return Res(viol, False, ["df:zero"])
    ntr = 0
    if case["truncate"] is True:
        ntr = int(2 * abs(seconds * fs))
    elif isinstance(case["truncate"], int) and case["truncate"] is not False and case["truncate"] is not None:
        ntr = int(case["truncate"])
    sl = slice(ntr, N - ntr) if ntr > 0 else slice(None)
    if ntr > 0 and 2 * ntr >= N:
        return Res(viol, False, ["df:all-truncated"])
    if len(out) != len(before.iloc[sl]):
        viol.append(V("df_truncation_length", got=len(out), expected=len(before.iloc[sl]), truncate=case["truncate"]))
        return Res(viol, False, [])
    sel = case["cols"] if case["cols"] is not None else list(df.columns)
    for col in df.columns:
        numeric = df[col].dtype.kind in "biufc"
        if col in sel and numeric:
            exp = np.asarray(timeshift(before[col].to_numpy(), seconds * fs))[sl]
            name = col if case["inplace"] else col + case["suffix"]
            if name not in out.columns or not out.index.equals(before.index[sl]) or \
                    not np.allclose(np.asarray(out[name], float), exp, rtol=1e-13, atol=1e-300):
                viol.append(V("df_column_ne_timeshift", col=col, inplace=case["inplace"]))
            if not case["inplace"] and not out[col].equals(before[col].iloc[sl]):
                viol.append(V("df_original_column_changed", col=col))
        else:
            if not out[col].equals(before[col].iloc[sl]):
                viol.append(V("df_unselected_column_changed", col=col))
            if col + case["suffix"] in out.columns:
                viol.append(V("df_unselected_column_shifted", col=col))
    return Res(viol, True, ["df:truncate=%s" % case["truncate"], "df:inplace" if case["inplace"] else "df:suffix"])


PARTS = [
    GridPart("taps", taps_cases, oracle_taps),
    Part("shift", shift_case, oracle_shift, n_quick=300, n_thorough=4000),
    Part("df_timeshift", df_case, oracle_df, n_quick=60, n_thorough=600),
]
QUOTAS = {"part:taps": {"quick": 55, "thorough": 55}, "part:shift": {"quick": 150, "thorough": 3000}, "shift:negative": {"quick": 200, "thorough": 4000},
          "vec:out_of_range": {"quick": 100, "thorough": 2000}}
