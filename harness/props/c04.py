"""C04 - resolution is log-spaced and monotone; averaging honours the overlap."""
import math

import numpy as np
from hypothesis import strategies as st

from .. import gens, sched
from ..api import FuzzPart, GridPart, Part, Res

PROPERTY_ID = "C04"
RULE = (
    "Generated + exhaustively enumerated admissible scheduler configurations x four schedulers. Per plan: L never "
    "increases / navg never decreases; in the log region (f*logfact>=freslim, 1/logfact>=bmin, max(1,Lmin)<L<N, "
    "navg>1; lpsd, ltf, vectorized) |L - fs/(f*logfact)|<=1/2 (vectorized: between the values at f and f*rho) and "
    "navg>=Kdes when L^2>=2N/(1-olap) and N-L+1>=Kdes; navg within 1/2 of K*=min(1+(N-L)/((1-olap)L), N-L+1); every "
    "start within 1/2 sample of i*(N-L)/(K-1); O == realised mean overlap (0 for K=1); |nf_vec-nf_ltf| <= "
    "max(1,ceil(0.1 nf_ltf)); forced bin count through SpectrumAnalyzer(force_target_nf=True) gives exactly the "
    "target or raises, and find_Jdes_binary_search returns a Jdes reproducing the target or None. Non-trivial: plan "
    "with >=5 log-region bins, or a forced-count search that succeeded/failed after >=3 scheduler evaluations."
)
ASSUMPTIONS = [
    "either tie rule (half-up / half-even) is accepted for the rounding of the number of averages",
    "forced-count searches are generated for N<=3000 (each search runs the scheduler ~20 times with Jdes up to 1e6)",
]
USES_NUMBA = False
SHARDS_QUICK = 4


def oracle(cfg):
    name = cfg["sched"]
    N, fs, olap = int(cfg["N"]), float(cfg["fs"]), float(cfg["olap"])
    Jdes, Kdes = int(cfg["Jdes"]), int(cfg["Kdes"])
    bmin, Lmin = sched.eff(name, cfg)
    xov = 1.0 - olap
    plan = sched.run_plan(name, cfg)
    f = np.asarray(plan["f"], dtype=float)
    L = np.asarray(plan["L"], dtype=np.int64)
    navg = np.asarray(plan["navg"], dtype=np.int64)
    O = np.asarray(plan["O"], dtype=float)
    D = plan["D"]
    nf = len(f)
    viol = []
    # (i) monotone
    if nf > 1:
        if np.any(np.diff(L) > 0):
            j = int(np.argmax(np.diff(L) > 0))
            viol.append(sched.vio("L_increases", name, cfg, j, L_j=int(L[j]), L_next=int(L[j + 1])))
        if np.any(np.diff(navg) < 0):
            j = int(np.argmax(np.diff(navg) < 0))
            viol.append(sched.vio("navg_decreases", name, cfg, j, K_j=int(navg[j]), K_next=int(navg[j + 1]),
                                  L_j=int(L[j]), L_next=int(L[j + 1])))
    # (ii) log region
    lf = sched.logfact(N, Jdes)
    freslim = fs / N * (1.0 + xov * (Kdes - 1))
    nlog = 0
    if name in ("lpsd", "ltf", "vectorized_ltf") and lf > 0:
        rho = sched.vec_rho(cfg, name)
        inlog = (f * lf >= freslim * (1 + 1e-12)) & (1.0 / lf >= bmin * (1 + 1e-12)) & (L > max(1, Lmin)) & (L < N) & (navg > 1)
        nlog = int(inlog.sum())
        if nlog:
            hi = fs / (f * lf) + 0.5 + 1e-9 * L
            lo = fs / (f * rho * lf) - 0.5 - 1e-9 * L
            bad = inlog & ((L > hi) | (L < lo))
            if bad.any():
                j = int(np.argmax(bad))
                viol.append(sched.vio("not_log_spaced", name, cfg, j, L=int(L[j]), ideal=float(fs / (f[j] * lf)), rho=rho))
            att = inlog & (L.astype(float) ** 2 >= 2.0 * N / xov) & (N - L + 1 >= Kdes)
            bad = att & (navg < Kdes)
            if bad.any():
                j = int(np.argmax(bad))
                viol.append(sched.vio("fewer_than_Kdes_averages", name, cfg, j, L=int(L[j]), navg=int(navg[j])))
    # (iii) averaging formula, even spread, realised overlap
    for j in range(nf):
        Lj, Kj = int(L[j]), int(navg[j])
        ks = sched.kstar(N, Lj, olap)
        if abs(Kj - ks) > 0.5 + 1e-9 * ks:
            viol.append(sched.vio("navg_not_nearest", name, cfg, j, L=Lj, navg=Kj, Kstar=ks))
            break
        d = np.asarray(D[j], dtype=float)
        if d.size != Kj:
            viol.append(sched.vio("navg_ne_len_D", name, cfg, j, L=Lj, navg=Kj, nD=int(d.size)))
            break
        if Kj > 1:
            ideal = np.arange(Kj) * ((N - Lj) / (Kj - 1.0))
            dev = np.abs(d - ideal)
            if dev.max() > 0.5 + 1e-9 * N:
                i = int(np.argmax(dev))
                viol.append(sched.vio("start_not_evenly_spread", name, cfg, j, L=Lj, K=Kj, i=i, start=float(d[i]), ideal=float(ideal[i])))
                break
            real = float(np.mean((Lj - np.diff(d)) / Lj))
            if abs(O[j] - real) > 1e-9:
                viol.append(sched.vio("O_not_realised_overlap", name, cfg, j, L=Lj, K=Kj, O=float(O[j]), realised=real))
                break
        else:
            if O[j] != 0.0:
                viol.append(sched.vio("O_nonzero_for_K1", name, cfg, j, O=float(O[j])))
                break
    # (iv) vectorised vs iterative bin count
    labels = sched.classify(name, cfg, plan)
    if name == "vectorized_ltf":
        nf_ltf = int(sched.run_plan("ltf", cfg)["nf"])
        allow = max(1, math.ceil(0.1 * nf_ltf))
        if abs(nf - nf_ltf) > allow:
            viol.append(sched.vio("vec_nf_within_10pct", name, cfg, nf_vec=nf, nf_ltf=nf_ltf))
        labels.append("vec-vs-ltf")
        if Jdes < 10:
            labels.append("vec-vs-ltf:Jdes<10")
    if nlog >= 5:
        labels.append("logregion>=5bins")
    return Res(viol, nlog >= 5, labels)


@st.composite
def log_config(draw, tier):
    """Configurations with a sizeable log region: N large against Kdes, moderate Jdes, small clamps."""
    N = draw(gens.loguniform_int(300, 20000 if tier == "quick" else 200000))
    olap = draw(st.sampled_from([0.0, 0.25, 0.5, 0.75] + gens.KAISER_OLAPS))
    cfg = {"N": N, "fs": draw(st.sampled_from([1.0, 2.0, 1024.0, 0.01, 48000.0])), "olap": olap,
           "bmin": draw(st.sampled_from([1.0, 1.0, 1.5, 2.0, 3.0])), "Lmin": draw(st.sampled_from([1, 1, 2, 4, 8])),
           "Jdes": draw(st.integers(5, 400)), "Kdes": draw(st.sampled_from([1, 2, 5, 10, 20, 50])),
           "sched": draw(st.sampled_from(["lpsd", "ltf", "ltf", "vectorized_ltf", "vectorized_ltf", "new_ltf"]))}
    return cfg


# ---------------------------------------------------------------- forced bin count
@st.composite
def force_case(draw, tier):
    N = draw(gens.loguniform_int(64, 3000))
    # the vectorised scheduler allocates a 10*Jdes-point grid (Jdes up to 1e6 during the search, ~1 s per
    # scheduler call): thorough tier only, 1 case in 9
    names = ["ltf", "ltf", "ltf", "lpsd", "lpsd", "new_ltf", "new_ltf", "new_ltf"]
    if tier == "thorough":
        names.append("vectorized_ltf")
    name = draw(st.sampled_from(names))
    cfg = {"N": N, "fs": draw(st.sampled_from([1.0, 2.0, 100.0])),
           "olap": draw(st.sampled_from([0.0, 0.5, 0.75])), "bmin": draw(st.sampled_from([1.0, 1.5, 2.0])),
           "Lmin": draw(st.sampled_from([1, 1, 4])), "Kdes": draw(st.sampled_from([1, 10, 100])), "sched": name}
    if draw(st.booleans()):
        cfg["target_from_J"] = draw(st.integers(100, 3000))   # reachable by construction
    else:
        cfg["target"] = draw(st.integers(1, N))
    return cfg


def oracle_force(cfg):
    from speckit import SpectrumAnalyzer
    from speckit.utils import find_Jdes_binary_search
    name = cfg["sched"]
    base = dict(N=int(cfg["N"]), fs=float(cfg["fs"]), olap=float(cfg["olap"]), bmin=float(cfg["bmin"]),
                Lmin=int(cfg["Lmin"]), Kdes=int(cfg["Kdes"]))
    func = sched.sched_func(name)
    if "target_from_J" in cfg:
        target = int(func(**dict(base, Jdes=int(cfg["target_from_J"])))["nf"])
    else:
        target = int(cfg["target"])
    viol, labels = [], ["force:" + name]
    calls = [0]

    def counting(**kw):
        calls[0] += 1
        return func(**kw)
    counting.__name__ = func.__name__
    J = find_Jdes_binary_search(counting, target, **base)
    if J is not None:
        nf = int(func(**dict(base, Jdes=int(J)))["nf"])
        if nf != target:
            viol.append(sched.vio("search_returns_wrong_Jdes", name, dict(cfg, Jdes=J), target=target, nf=nf))
        labels.append("search:found")
    else:
        labels.append("search:none")
    try:
        an = SpectrumAnalyzer(np.zeros(base["N"]), base["fs"], olap=base["olap"], bmin=base["bmin"], Lmin=base["Lmin"],
                              Kdes=base["Kdes"], Jdes=target, force_target_nf=True, scheduler=name)
        plan = an.plan()
    except Exception as exc:  # noqa: BLE001 - "exactly that count or an error"
        labels.append("force:raised:" + type(exc).__name__)
        if J is not None:
            viol.append(sched.vio("force_raises_although_reachable", name, dict(cfg, Jdes=J), target=target,
                                  exc=type(exc).__name__, msg=str(exc)[:120]))
    else:
        if int(plan["nf"]) != target or len(plan["f"]) != target:
            viol.append(sched.vio("forced_count_not_met", name, dict(cfg, Jdes=-1), target=target, nf=int(plan["nf"])))
        labels.append("force:met")
    return Res(viol, calls[0] >= 3, labels)


PARTS = [
    Part("configs", sched.config, oracle, n_quick=500, n_thorough=6000),
    Part("log_configs", log_config, oracle, n_quick=250, n_thorough=3000),
    GridPart("small_grid", sched.grid_configs, oracle),
    # thorough tier only: coverage-guided campaign on the pure-Python schedulers (same oracle inside the target)
    FuzzPart("atheris", "harness.fuzz_sched", runs_quick=2000, runs_thorough=25000, oracle=oracle),
    Part("force_nf", force_case, oracle_force, n_quick=12, n_thorough=60),
]
QUOTAS = {"logregion>=5bins": {"quick": 300, "thorough": 5000}, "vec-vs-ltf": {"quick": 300, "thorough": 5000},
          "degenerate": {"quick": 150, "thorough": 5000}, "force:met": {"quick": 8, "thorough": 100}}
