"""C09 - cross-spectral quantities satisfy their defining identities and bounds."""
import numpy as np
from hypothesis import strategies as st

from .. import gens, tol
from ..api import Part, Res, V

PROPERTY_ID = "C09"
RULE = (
    "Generated two-channel analyses over all relation kinds (independent, partially coherent with/without delay, "
    "delayed copy, gain, identical, anti-identical, zero/constant channels) x schedulers x orders x windows x "
    "backends, full and single-bin. Oracle per bin: 0<=coh<=1 and |Gxy|^2<=Gxx*Gyy (rtol 1e-9); coh==1 (1e-9) on "
    "K=1 bins and for y=g*x where both channels are powered; channel swap gives coh'=coh, Gxy'=conj(Gxy), Gxx'=Gyy, "
    "Gyy'=Gxx and Gxx of x analysed alone equals Gxx of the pair (rounding budget); GyyCx+GyyRx==Gyy (1e-12); "
    "GyySx==Gyy*(1-coh) (1e-9*Gyy). Non-trivial: coherence strictly inside (0.05,0.95) on >=3 bins and "
    "|arg Gxy|>0.1 somewhere (so a pairing/conjugation error in the conditioned spectra is visible)."
)
ASSUMPTIONS = ["records in the magnitude domain |x| in {0} U [1e-60,1e60] (fourth-order products must not over/underflow)"]
SHARDS_QUICK = 4

RELS = ["indep", "indep", "partial", "partial", "partial", "partial", "partial", "partial", "delay", "gain", "same", "neg",
        "yzero", "xzero"]


@st.composite
def case_(draw, tier):
    N = draw(st.one_of(st.integers(16, 200), gens.loguniform_int(16, 4000 if tier == "quick" else 40000)))
    cfg = draw(gens.analysis_config(N, Jmax=50, Kmax=30))
    case = {"N": N, "cfg": cfg, "fs": draw(st.sampled_from([1.0, 10.0, 0.37, 1e4])),
            "rec": draw(gens.pair(N, rel_kinds=RELS)), "how": draw(st.sampled_from(["full", "full", "full", "full", "full", "single"]))}
    if case["how"] == "single":
        case["L"] = draw(st.integers(1, N))
        case["fbin"] = draw(st.floats(0.0, 0.5))
    return case


def _run(data, fs, cfg, case):
    an = gens.make_analyzer(data, fs, cfg)
    if case["how"] == "single":
        return an.compute_single_bin(case["fbin"] * fs, L=case["L"])
    return an.compute()


def oracle(case):
    x, y = gens.materialise_pair(case["rec"])
    cfg, fs = case["cfg"], case["fs"]
    rel = case["rec"]["rel"]
    r = _run(np.vstack([x, y]), fs, cfg, case)
    rs = _run(np.vstack([y, x]), fs, cfg, case)
    rx = _run(x, fs, cfg, case)
    ry = _run(y, fs, cfg, case)
    wref = gens.resolve_window(cfg["win"])[1]
    viol = []
    nf = len(r.f)
    Gxx, Gyy, Gxy, coh = (np.asarray(r.Gxx), np.asarray(r.Gyy), np.asarray(r.Gxy), np.asarray(r.coh))
    K = np.asarray(r.navg)
    if len(rs.f) != nf or len(rx.f) != nf:
        viol.append(V("plan_depends_on_data"))
        return Res(viol, False, [])
    # per-bin budgets (in density units)
    bx, by, bxy, powered = np.zeros(nf), np.zeros(nf), np.zeros(nf), np.zeros(nf, bool)
    for j in range(nf):
        L = int(r.L[j])
        D = np.asarray(r.D[j], dtype=np.int64)
        om = 2 * np.pi * float(r.f[j]) / fs
        w = wref(L, cfg["psll"])
        S2 = float(np.sum(w * w))
        k = 2.0 / (fs * S2) if S2 > 0 else 0.0
        Sx = tol.seg_scale(x, D, L, w, cfg["order"])
        Sy = tol.seg_scale(y, D, L, w, cfg["order"])
        bx[j], by[j] = tol.budget2(L, om, Sx, len(D)) * k, tol.budget2(L, om, Sy, len(D)) * k
        bxy[j] = tol.budget2(L, om, (Sx ** 0.5 * Sy ** 0.5), len(D)) * k
        powered[j] = Gxx[j] > 1e3 * bx[j] and Gyy[j] > 1e3 * by[j]

    def first(mask):
        return int(np.argmax(mask))

    bad = ~((coh >= 0) & (coh <= 1 + 1e-9))
    if bad.any():
        viol.append(V("coherence_out_of_range", bin=first(bad), coh=float(coh[first(bad)]), rel=rel))
    bad = np.abs(Gxy) ** 2 > Gxx * Gyy * (1 + 1e-9)
    if bad.any():
        viol.append(V("cauchy_schwarz", bin=first(bad)))
    one = powered & ((K == 1) | (rel in ("gain", "same", "neg")))
    bad = one & (np.abs(coh - 1.0) > 1e-9 + 16 * (bx / np.where(Gxx > 0, Gxx, 1) + by / np.where(Gyy > 0, Gyy, 1)))
    if bad.any():
        j = first(bad)
        viol.append(V("coherence_not_one", bin=j, coh=float(coh[j]), K=int(K[j]), rel=rel))
    # swap
    for name, a, b, bud in (("coh", np.asarray(rs.coh), coh, None), ("Gxy", np.asarray(rs.Gxy), np.conj(Gxy), 4 * bxy),
                            ("Gxx", np.asarray(rs.Gxx), Gyy, 4 * by), ("Gyy", np.asarray(rs.Gyy), Gxx, 4 * bx)):
        if bud is None:
            m = powered & (np.abs(Gxy) > 1e3 * bxy)
            rel_b = 16 * (bxy / np.where(np.abs(Gxy) > 0, np.abs(Gxy), 1) + bx / np.where(Gxx > 0, Gxx, 1) + by / np.where(Gyy > 0, Gyy, 1))
            bad = m & (np.abs(a - b) > rel_b * b + 1e-12)
        else:
            bad = np.abs(a - b) > bud + 1e-12 * np.abs(b)
        if bad.any():
            j = first(bad)
            viol.append(V("swap_symmetry", q=name, bin=j, swapped=a[j], expected=b[j]))
    # alone vs pair
    for name, a, b, bud in (("Gxx", np.asarray(rx.Gxx), Gxx, 4 * bx), ("Gyy", np.asarray(ry.Gxx), Gyy, 4 * by)):
        bad = np.abs(a - b) > bud + 1e-12 * np.abs(b)
        if bad.any():
            j = first(bad)
            viol.append(V("auto_density_alone_vs_pair", q=name, bin=j, alone=float(a[j]), pair=float(b[j])))
    # conditioned spectra
    C, R, S = np.asarray(r.GyyCx), np.asarray(r.GyyRx), np.asarray(r.GyySx)
    bad = np.abs(C + R - Gyy) > 1e-12 * Gyy + 1e-300
    if bad.any():
        viol.append(V("coherent_plus_residual_ne_output", bin=first(bad)))
    bad = (Gxx > 0) & (np.abs(S - Gyy * (1 - coh)) > 1e-9 * Gyy + 1e-300)
    if bad.any():
        j = first(bad)
        viol.append(V("GyySx_ne_Gyy_times_1_minus_coh", bin=j, GyySx=float(S[j]), expected=float(Gyy[j] * (1 - coh[j])),
                      Gyy=float(Gyy[j]), coh=float(coh[j]), arg_Gxy=float(np.angle(Gxy[j])), K=int(K[j]), rel=rel))
    mid = (coh > 0.05) & (coh < 0.95)
    nontrivial = int(mid.sum()) >= 3 and bool(np.any(np.abs(np.angle(Gxy[mid])) > 0.1))
    labels = ["rel:" + rel, "how:" + case["how"], "be:" + cfg["backend"]]
    if nontrivial:
        labels.append("complex-partial-coherence")
    if np.any(K == 1):
        labels.append("has-K1-bin")
    return Res(viol, nontrivial, labels)


PARTS = [Part("pairs", case_, oracle, n_quick=200, n_thorough=2000)]
QUOTAS = {"complex-partial-coherence": {"quick": 100, "thorough": 3000}, "rel:yzero": {"quick": 10, "thorough": 200},
          "rel:same": {"quick": 10, "thorough": 200}, "has-K1-bin": {"quick": 50, "thorough": 1000}}
