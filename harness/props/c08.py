"""C08 - segment detrending removes polynomial trends and nothing else."""
import numpy as np
from hypothesis import strategies as st

from .. import gens, refs, tol
from ..api import Part, Res, V

PROPERTY_ID = "C08"
RULE = (
    "Generated record pairs (x, x+p): p a polynomial in the sample index of degree <= order (invariance) or order+1 "
    "(sensitivity; degree 0 for order -1) with amplitude up to 1e12 x the record scale, added to channel 1, 2 or both; "
    "full analyses over all schedulers (short L included) and single-bin requests; auto and cross; numba, numpy and "
    "CUDA (simulator child). Oracle: (i) XX, YY, XY, M2 of the two analyses differ by <= 4x the rounding budget at the "
    "scale of the trended record; (ii) the trended analysis equals the direct-DFT reference with an order-p "
    "least-squares detrend (so a degree p+1 trend, or any offset at order -1, changes the estimate exactly as the "
    "definition says; where the reference change exceeds 1e3 budgets the implementation's change must too). "
    "Trend amplitudes reach 1e12 times the record scale; one configuration in five uses a user-written scheduler whose "
    "bins share (L,K) but not their starts; single-bin lengths include multiples of 128. "
    "Non-trivial: trend peak >= 10x the record peak and a checked bin with L >= order+3."
)
ASSUMPTIONS = [
    "CUDA through Numba's simulator (kernel logic only)",
    "invariance is asserted relative to the size of the added trend, as the property states",
]
SHARDS_QUICK = 4
SHARDS_CUDASIM = 4


@st.composite
def trend(draw, order, kind):
    if kind == "invariant":
        deg = draw(st.integers(0, order))
    else:
        deg = order + 1 if order >= 0 else draw(st.integers(0, 2))
    coefs = [draw(st.floats(-1.0, 1.0)) for _ in range(deg + 1)]
    coefs[-1] = draw(st.sampled_from([1.0, -1.0, 0.5]))     # the leading term is really there
    return {"deg": deg, "coefs": coefs, "amp": draw(st.sampled_from([1.0, 10.0, 1e3, 1e6, 1e6, 1e9, 1e12])),
            "chan": draw(st.sampled_from(["x", "y", "both"]))}


def poly(tr, N, scale):
    t = (np.arange(N) - 0.5 * N) / (0.5 * N)
    p = np.zeros(N)
    for k, c in enumerate(tr["coefs"]):
        p += c * t ** k
    return p * tr["amp"] * scale


@st.composite
def case_(draw, tier, backends, Nmax, Jmax):
    kind = draw(st.sampled_from(["invariant", "invariant", "sensitive"]))
    orders = (0, 1, 2) if kind == "invariant" else (-1, 0, 1, 2)
    N = draw(st.one_of(st.integers(16, 120), gens.loguniform_int(16, Nmax), gens.loguniform_int(min(128, Nmax), Nmax)))
    cfg = draw(gens.analysis_config(N, backends=(backends[0],), orders=orders, Jmax=Jmax, Kmax=20, custom=True))
    mode = draw(st.sampled_from(["auto", "csd", "csd"]))
    case = {"N": N, "mode": mode, "cfg": cfg, "fs": draw(st.sampled_from([1.0, 10.0, 0.37])), "kind": kind,
            "trend": draw(trend(cfg["order"], kind)), "backends": list(backends),
            "rec": draw(gens.pair(N, rel_kinds=["indep", "partial", "delay", "gain"], scale=False) if mode == "csd"
                        else gens.record(N, kinds=["noise", "ar1", "sines", "impulse"], scale=False)),
            "how": draw(st.sampled_from(["full", "full", "single"]))}
    if case["how"] == "single":
        case["L"] = draw(st.one_of(st.integers(1, min(N, 8)), st.integers(1, N), st.sampled_from([64, 128, 256, 512, 1024]).map(lambda v: min(v, N)),
                                   st.integers(1, max(1, N // 128)).map(lambda k: min(128 * k, N))))      # multiples of a block size
        case["fbin"] = draw(st.floats(0.0, 0.5))
    return case


def _pick(nf, n=30):
    return list(range(nf)) if nf <= n else sorted(set(int(round(i * (nf - 1) / (n - 1.0))) for i in range(n)))


def _run(data, fs, cfg, case, be):
    an = gens.make_analyzer(data, fs, cfg, backend=be)
    if case["how"] == "single":
        return an.compute_single_bin(case["fbin"] * fs, L=case["L"])
    return an.compute()


def oracle(case):
    cfg, fs, N, mode, tr = case["cfg"], case["fs"], case["N"], case["mode"], case["trend"]
    order = cfg["order"]
    if mode == "csd":
        x, y = gens.materialise_pair(case["rec"])
    else:
        x, y = gens.materialise(case["rec"]), None
    scale = float(np.max(np.abs(x))) or 1.0
    p = poly(tr, N, scale)
    x1 = x + p if (tr["chan"] in ("x", "both") or y is None) else x
    y1 = None if y is None else (y + p if tr["chan"] in ("y", "both") else y)
    d0 = x if y is None else np.vstack([x, y])
    d1 = x1 if y is None else np.vstack([x1, y1])
    wref = gens.resolve_window(cfg["win"])[1]
    viol, nontrivial, visible = [], False, False
    for be in case["backends"]:
        r0 = _run(d0, fs, cfg, case, be)
        r1 = _run(d1, fs, cfg, case, be)
        if len(r0.f) != len(r1.f) or not np.array_equal(np.asarray(r0.L), np.asarray(r1.L)):
            viol.append(V("plan_depends_on_data", backend=be))
            break
        for j in _pick(len(r1.f)):
            L = int(r1.L[j])
            D = np.asarray(r1.D[j], dtype=np.int64)
            om = 2 * np.pi * float(r1.f[j]) / fs
            w = wref(L, cfg["psll"])
            Sx = tol.seg_scale(x1, D, L, w, order)
            Sy = Sx if y1 is None else tol.seg_scale(y1, D, L, w, order)
            bx, by, bxy = tol.budget2(L, om, Sx, len(D)), tol.budget2(L, om, Sy, len(D)), tol.budget2(L, om, (Sx ** 0.5 * Sy ** 0.5), len(D))
            b4 = tol.budget4(L, om, Sx, Sy, len(D))
            got1 = (float(r1.XX[j]), float(r1.YY[j]), complex(r1.XY[j]), float(r1.M2[j]))
            got0 = (float(r0.XX[j]), float(r0.YY[j]), complex(r0.XY[j]), float(r0.M2[j]))
            buds = (bx, by, bxy, b4)
            names = ("XX", "YY", "XY", "M2")
            # (ii)/(iii): the trended analysis is the definition with an order-p detrend
            ref1 = refs.dft_stats(x1, y1, D, L, w, om, order)
            refv = (ref1["XX"], ref1["YY"], ref1["XY"], ref1["M2"])
            buds_ref = (bx, by, bxy, tol.budget_m2(bxy if y1 is not None else bx, ref1["M2"], b4))
            for nm, a, b, bud in zip(names, got1, refv, buds_ref):
                if mode == "auto" and nm == "XY":
                    b = complex(ref1["XX"], 0.0)
                if not abs(a - b) <= bud:
                    viol.append(V("trended_ne_definition", backend=be, stat=nm, got=a, ref=b, budget=bud, order=order, L=L,
                                  bin=int(j), deg=tr["deg"], chan=tr["chan"], kind=case["kind"]))
                    break
            if viol:
                break
            if case["kind"] == "invariant":
                # both analyses carry their own rounding: budget at the larger of the two record scales
                Sx0 = tol.seg_scale(x, D, L, w, order)
                Sy0 = Sx0 if y is None else tol.seg_scale(y, D, L, w, order)
                buds0 = (tol.budget2(L, om, Sx0, len(D)), tol.budget2(L, om, Sy0, len(D)), tol.budget2(L, om, (Sx0 ** 0.5 * Sy0 ** 0.5), len(D)),
                         tol.budget4(L, om, Sx0, Sy0, len(D)))
                for nm, a, b, bud in zip(names, got1, got0, [max(u, v) for u, v in zip(buds, buds0)]):
                    if not abs(a - b) <= 4 * bud:
                        viol.append(V("trend_not_removed", backend=be, stat=nm, with_trend=a, without=b, budget=4 * bud,
                                      order=order, L=L, bin=int(j), deg=tr["deg"], chan=tr["chan"], amp=tr["amp"]))
                        break
                if viol:
                    break
            else:
                ref0 = refs.dft_stats(x, y, D, L, w, om, order)
                for nm, key, bud in (("XX", "XX", bx), ("YY", "YY", by)):
                    dref = abs(ref1[key] - ref0[key])
                    if dref > 1e3 * bud:
                        visible = True
                        dimp = abs(got1[names.index(nm)] - got0[names.index(nm)])
                        if not dimp >= 0.5 * dref:
                            viol.append(V("higher_degree_trend_not_seen", backend=be, stat=nm, change=dimp, ref_change=dref,
                                          order=order, L=L, bin=int(j), deg=tr["deg"]))
                            break
                if viol:
                    break
            if tr["amp"] >= 10 and L >= order + 3:
                nontrivial = True
        if viol:
            break
    labels = ["%s:%s,o=%d,%s,%s" % (case["kind"], case["backends"][0], order, mode, case["how"]), "chan:" + tr["chan"]]
    if visible:
        labels.append("sensitive:change-visible")
    if case["kind"] == "invariant" and nontrivial:
        labels.append("invariant:big-trend")
    if cfg.get("sched_as") == "custom" and case["how"] == "full":
        labels.append("custom-scheduler:" + cfg["custom"]["style"])
    return Res(viol, nontrivial, labels)


def _mk(backends, Nq, Nt, Jmax):
    return lambda tier: case_(tier, backends, Nq if tier == "quick" else Nt, Jmax)


PARTS = [
    Part("numba", _mk(("numba",), 3000, 30000, 40), oracle, n_quick=90, n_thorough=900),
    Part("numpy", _mk(("numpy",), 3000, 30000, 40), oracle, n_quick=60, n_thorough=600),
    Part("cuda", _mk(("cuda",), 200, 600, 10), oracle, n_quick=8, n_thorough=60, env="cudasim"),
]
QUOTAS = {"invariant:big-trend": {"quick": 120, "thorough": 3000}, "sensitive:change-visible": {"quick": 80, "thorough": 1500},
          "part:cuda": {"quick": 10, "thorough": 100}, "chan:y": {"quick": 50, "thorough": 1000}}
