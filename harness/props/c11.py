"""C11 - empirical error estimates are the segment scatter in spectral units."""
import math
import os

import numpy as np
from hypothesis import strategies as st

from .. import gens, refs, tol
from ..api import GridPart, Part, Res, V

PROPERTY_ID = "C11"
RULE = (
    "Generated analyses (auto and cross, all orders, numba and numpy, full and single-bin): with the per-segment "
    "cross products Z_k recomputed by the direct-DFT reference on the reported segmentation, XY_emp_var == "
    "var_pop(Z)/K (fourth-order rounding budget /K), == 0 for K=1 and never negative; XY_emp_dev == sqrt(XY_emp_var); "
    "Gxx_emp_dev (auto) / Gxy_emp_dev (cross) == XY_emp_dev*2/(fs*sum w^2) (rtol 1e-12) and None for the other "
    "mode; XY_M2 == M2. Statistical grid: white Gaussian records with n=4000 non-overlapping segments (Hann, "
    "olap=0): Gxx_emp_dev/Gxx_dev and Gxy_emp_dev/Gxy_dev within 1+-0.15 at bins >=2 main lobes from 0 and Nyquist. "
    "Non-trivial: a checked bin with K>=3 and M2 > 1e3*budget."
)
ASSUMPTIONS = ["statistical clause: fixed-seed ensembles, tolerance ~6 sigma of the sampling error sqrt(2/n)"]
SHARDS_QUICK = 4


@st.composite
def case_(draw, tier):
    N = draw(st.one_of(st.integers(16, 200), gens.loguniform_int(16, 4000 if tier == "quick" else 40000)))
    mode = draw(st.sampled_from(["auto", "csd"]))
    case = {"N": N, "mode": mode, "cfg": draw(gens.analysis_config(N, Jmax=40, Kmax=30)),
            "fs": draw(st.sampled_from([1.0, 10.0, 0.37, 1e4])),
            "rec": draw(gens.pair(N, rel_kinds=["indep", "partial", "delay", "delay", "gain", "gain", "same", "yzero"]) if mode == "csd" else gens.record(N)),
            "how": draw(st.sampled_from(["full", "full", "single"]))}
    if case["how"] == "single":
        case["L"] = draw(st.one_of(st.integers(1, N), st.integers(1, 6)))
        case["fbin"] = draw(st.floats(0.0, 0.5))
    return case


def _pick(nf, n=30):
    return list(range(nf)) if nf <= n else sorted(set(int(round(i * (nf - 1) / (n - 1.0))) for i in range(n)))


def oracle(case):
    cfg, fs, mode = case["cfg"], case["fs"], case["mode"]
    if mode == "csd":
        x, y = gens.materialise_pair(case["rec"])
        data = np.vstack([x, y])
    else:
        x, y = gens.materialise(case["rec"]), None
        data = x
    an = gens.make_analyzer(data, fs, cfg)
    res = an.compute_single_bin(case["fbin"] * fs, L=case["L"]) if case["how"] == "single" else an.compute()
    wref = gens.resolve_window(cfg["win"])[1]
    viol, nontrivial, tiny = [], False, False
    var, dev, m2 = np.asarray(res.XY_emp_var), np.asarray(res.XY_emp_dev), np.asarray(res.XY_M2)
    gdev = np.asarray(res.Gxx_emp_dev if mode == "auto" else res.Gxy_emp_dev)
    other = res.Gxy_emp_dev if mode == "auto" else res.Gxx_emp_dev
    if other is not None:
        viol.append(V("emp_dev_of_other_mode_not_None", mode=mode))
    if np.any(var < 0) or np.any(dev < 0) or np.any(gdev < 0):
        viol.append(V("negative_empirical_estimate"))
    if not np.array_equal(m2, np.asarray(res.M2)):
        viol.append(V("XY_M2_ne_M2"))
    if not np.all(np.abs(dev - np.sqrt(var)) <= 1e-12 * dev + 1e-300):
        viol.append(V("emp_dev_ne_sqrt_emp_var"))
    for j in _pick(len(res.f)):
        L = int(res.L[j])
        D = np.asarray(res.D[j], dtype=np.int64)
        K = len(D)
        om = 2 * np.pi * float(res.f[j]) / fs
        w = wref(L, cfg["psll"])
        ref = refs.dft_stats(x, y, D, L, w, om, cfg["order"])
        Sx = tol.seg_scale(x, D, L, w, cfg["order"])
        Sy = Sx if y is None else tol.seg_scale(y, D, L, w, cfg["order"])
        b4 = tol.budget4(L, om, Sx, Sy, len(D))
        e2 = tol.budget2(L, om, Sx ** 0.5 * Sy ** 0.5, len(D))
        bm2 = tol.budget_m2(e2, ref["M2"], b4)      # proportional to the scatter, not to |mean|^2
        exp_var = ref["M2"] / K
        if K == 1 and (var[j] != 0.0 or dev[j] != 0.0 or gdev[j] != 0.0):
            viol.append(V("nonzero_for_single_segment", bin=int(j), var=float(var[j])))
            break
        if not abs(var[j] - exp_var) <= bm2 / K:
            viol.append(V("emp_var_ne_population_variance_over_K", bin=int(j), K=K, got=float(var[j]), expected=exp_var,
                          budget=bm2 / K, L=L, order=cfg["order"], backend=cfg["backend"], mode=mode))
            break
        S2 = float(np.sum(w * w))
        scale = 2.0 / (fs * S2) if S2 > 0 else 0.0
        if not abs(gdev[j] - dev[j] * scale) <= 1e-12 * dev[j] * scale + 1e-300:
            viol.append(V("emp_dev_units", bin=int(j), got=float(gdev[j]), expected=float(dev[j] * scale), mode=mode))
            break
        if K >= 3 and ref["M2"] > 1e3 * b4:
            nontrivial = True
        if K >= 2 and ref["M2"] < 1e-12 * abs(ref["XY"]) ** 2 and abs(ref["XY"]) ** 2 > 1e3 * b4:
            tiny = True
    labels = ["emp:%s,%s,o=%d,%s" % (mode, cfg["backend"], cfg["order"], case["how"])]
    if tiny:
        labels.append("tiny-relative-scatter")
    return Res(viol, nontrivial or tiny, labels)


def stat_cases(tier):
    seed = int(os.environ.get("VERIF_SEED", "1"))
    reps = 2 if tier == "quick" else 8
    for mode in ("auto", "csd"):
        for k in range(reps):
            for b in (5.3, 9.0, 12.5):
                yield {"mode": mode, "seed": seed * 100 + k, "bin": b, "n": 4000, "L": 32,
                       "backend": "numba" if k % 2 == 0 else "numpy", "c": [0.0, 1.0][k % 2]}


def oracle_stat(case):
    from speckit import SpectrumAnalyzer
    n, L = case["n"], case["L"]
    N = n * L
    rng = np.random.default_rng(case["seed"])
    x = rng.standard_normal(N)
    if case["mode"] == "csd":
        y = case["c"] * x + rng.standard_normal(N)      # c=0: independent; c=1: coherence 0.5
        data = np.vstack([x, y])
    else:
        data = x
    an = SpectrumAnalyzer(data, 1.0, olap=0.0, win="hann", order=0, backend=case["backend"])
    r = an.compute_single_bin(case["bin"] / L, L=L)
    viol = []
    if int(r.navg[0]) != n:
        viol.append(V("stat_setup_navg", navg=int(r.navg[0])))
        return Res(viol, False, [])
    if case["mode"] == "auto":
        ratio = float(r.Gxx_emp_dev[0]) / float(r.Gxx_dev[0])
    else:
        ratio = float(r.Gxy_emp_dev[0]) / float(r.Gxy_dev[0])
    if not abs(ratio - 1.0) <= 0.15:
        viol.append(V("empirical_vs_analytic_deviation", mode=case["mode"], ratio=ratio, bin=case["bin"], n=n))
    return Res(viol, True, ["stat:" + case["mode"]], {"stat_max_abs_ratio_minus_1": abs(ratio - 1.0)})


@st.composite
def cancel_case(draw, tier):
    return {"L": draw(st.integers(8, 400)), "reps": draw(st.sampled_from([2, 2, 4, 6])), "seed": draw(st.integers(0, 2 ** 31 - 1)),
            "order": draw(st.sampled_from([-1, 0, 1, 2])), "backend": draw(st.sampled_from(["numba", "numpy"])),
            "fbin": draw(st.floats(0.02, 0.48)), "win": draw(st.sampled_from(["hann", "kaiser"])), "how": draw(st.sampled_from(["single", "full"]))}


def oracle_cancel(case):
    """x repeats one waveform in every block of L samples, y carries it with alternating sign ("chopped"): with
    olap=0 and segment length L the per-segment products are +Z, -Z, +Z, ... - their mean is exactly 0 while their
    scatter is |Z|^2."""
    from speckit import SpectrumAnalyzer
    L, reps = case["L"], case["reps"]
    rng = np.random.default_rng(case["seed"])
    blk = rng.standard_normal(L) + 0.3
    x = np.tile(blk, reps)
    y = np.concatenate([blk * (1.0 if k % 2 == 0 else -1.0) for k in range(reps)])
    N = L * reps
    an = SpectrumAnalyzer(np.vstack([x, y]), 1.0, olap=0.0, win=case["win"], psll=100, order=case["order"], backend=case["backend"],
                          Lmin=L, Jdes=20, Kdes=2, scheduler="ltf")
    res = an.compute_single_bin(case["fbin"], L=L) if case["how"] == "single" else an.compute()
    wref = gens.resolve_window(case["win"])[1]
    viol, hit = [], False
    for j in range(len(res.f)):
        Lj = int(res.L[j])
        D = np.asarray(res.D[j], dtype=np.int64)
        K = len(D)
        if Lj != L or K < 2 or not np.array_equal(D, np.arange(K) * L):
            continue
        om = 2 * np.pi * float(res.f[j])
        w = wref(Lj, 100)
        ref = refs.dft_stats(x, y, D, Lj, w, om, case["order"])
        Sx = tol.seg_scale(x, D, Lj, w, case["order"])
        e2 = tol.budget2(Lj, om, Sx, K)
        bm2 = tol.budget_m2(e2, ref["M2"], tol.budget4(Lj, om, Sx, Sx, K))
        if K % 2 == 0 and abs(ref["XY"]) <= 1e3 * e2:
            hit = True
        if not abs(float(res.XY_emp_var[j]) - ref["M2"] / K) <= bm2 / K:
            viol.append(V("emp_var_ne_population_variance_over_K", bin=int(j), K=K, got=float(res.XY_emp_var[j]), expected=ref["M2"] / K,
                          budget=bm2 / K, L=Lj, order=case["order"], backend=case["backend"], mode="csd", mean_XY=abs(ref["XY"])))
            break
    return Res(viol, hit, ["cancel:%s,o=%d" % (case["backend"], case["order"])] + (["cancel:mean-exactly-zero"] if hit else []))


PARTS = [
    Part("cancelling", cancel_case, oracle_cancel, n_quick=40, n_thorough=400),
    Part("analyses", case_, oracle, n_quick=200, n_thorough=2000),
    GridPart("gaussian", stat_cases, oracle_stat),
]
QUOTAS = {"cancel:mean-exactly-zero": {"quick": 40, "thorough": 600}, "tiny-relative-scatter": {"quick": 4, "thorough": 100}, "part:analyses": {"quick": 150, "thorough": 3000}, "part:gaussian": {"quick": 12, "thorough": 48}}
