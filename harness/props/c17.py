"""C17 - noise generators are seed-reproducible continuous streams."""
import numpy as np
from hypothesis import strategies as st
from hypothesis.stateful import initialize, precondition, rule

from .. import gens
from ..api import MachinePart, Res, V
from ..machine import TracedMachine

PROPERTY_ID = "C17"
RULE = (
    "A Hypothesis RuleBasedStateMachine per run: a generator of a drawn class (white, red, alpha, pink) with drawn "
    "(seed, fs, fmin, fmax, alpha, init_filter) is consumed through a drawn history of get_series(n) calls "
    "(n in {0,1,2,...,5000}; 0 and 1 heavily weighted) or get_sample() runs (1..5000 samples, crossing the 4096 "
    "prefetch buffer); a twin built with the same seed receives the same calls. Model: a fresh instance asked once "
    "for the total length. Invariants after every step: twin == primary sample for sample; concatenation of all "
    "blocks == the single request (<=1e-12*rms); coloured generators == scipy.signal.lfilter applied section by "
    "section to the same white stream (incl. the discarded settling prefix when init_filter=True; <=1e-10*rms). "
    "An `align` rule (and optionally the first request) ends a block at stream position 2^k-1, 2^k or 2^k+1 counted from "
    "the first delivered sample or from the start of the settling run; bands of less than two octaves are included. "
    "Non-trivial: >=3 requests including one of size 0 or 1 followed by a non-empty one (series mode), or a "
    "get_sample history crossing a buffer boundary."
)
ASSUMPTIONS = [
    "mixing get_sample and get_series on one instance is not claimed by the property (get_sample prefetches 4096 samples); "
    "each run uses one of the two access modes",
    "the reference cascade reads the generator's coefficient arrays (the C18 check pins those to the prescribed spectrum)",
]
USES_NUMBA = True
SHARDS_QUICK = 4


def make(kind, p):
    from speckit import noise
    if kind == "white":
        return noise.white_noise(p["fs"], psd=p["psd"], seed=p["seed"])
    if kind == "red":
        return noise.red_noise(p["fs"], p["fmin"], init_filter=p["init"], seed=p["seed"])
    if kind == "alpha":
        return noise.alpha_noise(p["fs"], p["fmin"], p["fmax"], p["alpha"], init_filter=p["init"], seed=p["seed"])
    return noise.pink_noise(p["fs"], p["fmin"], p["fmax"], init_filter=p["init"], seed=p["seed"])


def reference_stream(kind, p, total):
    """R-IIR: the same white stream coloured by scipy.signal.lfilter, section by section."""
    from scipy.signal import lfilter
    from speckit import noise
    g = make(kind, dict(p, init=False))
    if kind == "white":
        return None
    settle = int(np.ceil(2.0 * g.fs / g.fmin)) if p["init"] else 0
    w = noise.white_noise(p["fs"], psd=1.0, seed=p["seed"])
    if kind == "red":
        zi = np.array(g._zi, dtype=float)      # state right after construction (before any request)
        w._rng.normal(scale=w.rms)             # the generator consumed one white sample for its initial state
        x = w.get_series(settle + total)
        y, _ = lfilter(g._a, g._b, x, zi=zi)
        return (y * g._scaling)[settle:]
    x = w.get_series(settle + total)
    for (a0, a1), (b0, b1) in zip(g._a_coeffs, g._b_coeffs):
        x = lfilter([a0, a1], [b0, b1], x)
    return (x * g._scaling)[settle:]


class NoiseHistory(TracedMachine):
    def init_state(self):
        self.gen = None
        self.blocks = []
        self.sizes = []
        self.total = 0
        self.kind = None
        self.mode = None
        self.naligned = 0
        self.narrow = False

    @initialize(kind=st.sampled_from(["white", "red", "red", "alpha", "alpha", "pink"]), seed=st.integers(0, 2 ** 32 - 1),
                fs=st.sampled_from([1.0, 10.0, 100.0, 1e4, 3.7]), ratio=st.one_of(gens.loguniform(20.0, 2000.0), gens.loguniform(20.0, 2000.0),
                                                                                  gens.loguniform(3.3e4, 1e5)), span=st.floats(0.05, 1.0),
                alpha=st.one_of(st.floats(0.01, 2.0), st.sampled_from([0.01, 1.0, 2.0])), init=st.booleans(),
                psd=st.sampled_from([1.0, 0.01, 42.0]), mode=st.sampled_from(["series", "series", "series", "samples"]),
                narrow=st.one_of(st.just(0.0), st.just(0.0), gens.loguniform(1.2, 4.0)),
                first=st.sampled_from([0, 0, 0, 4095, 4096, 4097, 8191, 8192]), first_settle=st.booleans())
    def init(self, kind, seed, fs, ratio, span, alpha, init, psd, mode, narrow, first, first_settle):
        self.step("init", kind=kind, seed=seed, fs=fs, ratio=ratio, span=span, alpha=alpha, init=init, psd=psd, mode=mode, narrow=narrow,
                  first=first, first_settle=first_settle)

    def do_init(self, kind, seed, fs, ratio, span, alpha, init, psd, mode, narrow=0.0, first=0, first_settle=False):
        fmin = fs / ratio
        fmax = min(fs / 2.0, max(4.0 * fmin, span * fs / 2.0))
        if narrow:
            fmax = min(fs / 2.0, narrow * fmin)       # a band of less than two octaves: one to three filter sections
        self.narrow = bool(narrow) and kind in ("alpha", "pink")
        self.p = {"fs": fs, "fmin": fmin, "fmax": fmax, "alpha": alpha, "init": init, "seed": seed, "psd": psd}
        self.kind, self.mode = kind, mode
        self.gen = make(kind, self.p)
        self.twin = make(kind, self.p)
        self.scale = float(np.sqrt(psd * fs)) if kind == "white" else None
        if first and mode == "series":
            # the very first request ends at (or next to) a power-of-two position of the underlying stream
            self.do_align(first + 1, -1, first_settle)

    @precondition(lambda self: self.gen is not None and self.mode == "series" and self.total < 400000)
    @rule(n=st.one_of(st.sampled_from([0, 1]), st.sampled_from([0, 1, 2, 3]), st.integers(0, 50), st.integers(0, 5000), st.integers(0, 5000),
                     st.sampled_from([4095, 4096, 4097, 65535, 65536, 65537, 70000, 100000, 131073])))   # block/buffer sizes
    def series(self, n):
        self.step("series", n=n)

    @precondition(lambda self: self.gen is not None and self.mode == "series" and self.total < 400000)
    @rule(B=st.sampled_from([4096, 4096, 8192, 65536]), delta=st.sampled_from([-1, 0, 1]), settle=st.booleans())
    def align(self, B, delta, settle):
        self.step("align", B=B, delta=delta, settle=settle)

    def do_align(self, B, delta, settle):
        """a request that ends exactly at (or one sample around) a power-of-two position of the stream - counted from the
        first delivered sample or from the start of the settling run"""
        target = B + delta
        if settle and self.p["init"] and self.kind != "white":
            target -= int(np.ceil(2.0 * self.p["fs"] / self.p["fmin"]))
        n = target - self.total
        if n < 0:
            n = (-self.total) % B + delta
        if 0 <= n <= 200000:
            self.naligned += 1
            self.do_series(int(n))

    def do_series(self, n):
        a = np.asarray(self.gen.get_series(n))
        b = np.asarray(self.twin.get_series(n))
        if a.shape != (n,):
            self.flag("wrong_length", n=n, got=list(a.shape), kind=self.kind)
        if not np.array_equal(a, b):
            self.flag("same_seed_instances_differ", n=n, kind=self.kind, call=len(self.sizes))
        self.blocks.append(a)
        self.sizes.append(int(n))
        self.total += int(n)

    @precondition(lambda self: self.gen is not None and self.mode == "samples" and self.total < 12000)
    @rule(k=st.one_of(st.integers(1, 10), st.integers(1, 5000)))
    def samples(self, k):
        self.step("samples", k=k)

    def do_samples(self, k):
        a = np.array([self.gen.get_sample() for _ in range(k)], dtype=float)
        b = np.array([self.twin.get_sample() for _ in range(k)], dtype=float)
        if not np.array_equal(a, b):
            self.flag("same_seed_instances_differ", k=k, kind=self.kind, mode="samples")
        self.blocks.append(a)
        self.sizes.append(int(k))
        self.total += int(k)

    @rule()
    def idle(self):
        """keeps the machine steppable once the length caps are reached (not part of the trace)"""

    def check(self):
        if self.gen is None or self.total == 0 or getattr(self, "_checked_total", -1) == (self.total, len(self.sizes)):
            return
        self._checked_total = (self.total, len(self.sizes))
        got = np.concatenate(self.blocks) if self.blocks else np.zeros(0)
        fresh = make(self.kind, self.p)
        single = np.asarray(fresh.get_series(self.total))
        rms = float(np.sqrt(np.mean(single ** 2))) or 1.0
        if got.shape != single.shape or not np.all(np.abs(got - single) <= 1e-12 * rms):
            k = int(np.argmax(np.abs(got - single) > 1e-12 * rms)) if got.shape == single.shape else -1
            self.flag("chunked_stream_differs_from_single_request", kind=self.kind, sizes=self.sizes[-8:], first_bad=k,
                      total=self.total, mode=self.mode, err=float(np.max(np.abs(got - single))) if got.shape == single.shape else -1.0,
                      rms=rms)
            return
        ref = reference_stream(self.kind, self.p, self.total)
        if ref is not None and not np.all(np.abs(got - ref) <= 1e-10 * rms):
            self.flag("cascade_differs_from_reference_IIR", kind=self.kind, err=float(np.max(np.abs(got - ref))), rms=rms,
                      init=self.p["init"])

    def summary(self):
        nt = False
        if self.mode == "series":
            for i, n in enumerate(self.sizes):
                if n in (0, 1) and any(m > 0 for m in self.sizes[i + 1:]):
                    nt = True
            nt = nt and len(self.sizes) >= 3
        elif self.mode == "samples":
            nt = self.total > 4096
        labels = ["gen:%s" % self.kind, "mode:%s" % self.mode]
        if self.mode == "series" and 0 in self.sizes:
            labels.append("has-empty-request")
        if self.p.get("init") if hasattr(self, "p") else False:
            labels.append("init_filter")
        if any(n > 65536 for n in self.sizes):
            labels.append("has-request>65536")
        if self.naligned:
            labels.append("has-aligned-request")
        if self.narrow:
            labels.append("narrow-band<2octaves")
        return nt, labels


PARTS = [MachinePart("streams", NoiseHistory, n_quick=100, n_thorough=800, steps=16)]
QUOTAS = {"has-request>65536": {"quick": 20, "thorough": 300}, "has-empty-request": {"quick": 60, "thorough": 1000}, "gen:red": {"quick": 30, "thorough": 500},
          "gen:alpha": {"quick": 30, "thorough": 500}, "mode:samples": {"quick": 20, "thorough": 300},
          "part:streams": {"quick": 60, "thorough": 1500}}
