"""C06 - spectral densities are calibrated: power, bandwidth and scaling laws."""
import math

import numpy as np
from hypothesis import strategies as st

from .. import gens, refs, tol
from ..api import Part, Res, V

PROPERTY_ID = "C06"
RULE = (
    "(a) generated sinusoids A*sin(2 pi f0 n/fs + phi) (A in 1e-3..1e3, L from 4 main lobes to 4096, N in [L,4L], Kaiser "
    "psll P in [60,200], f0 a fractional bin at least sqrt(1+alpha^2) bins from 0 and L/2; +1.5 bins for detrend orders "
    "1,2) analysed at f0 by compute_single_bin (by L and by fres): |ps/(A^2/2)-1| <= 4*10^(-P/20)+1e-9; (a') generated "
    "full analyses with every window: ENBW == fs*sum(w^2)/(sum w)^2 and ps == psd*ENBW (rtol 1e-12); (b) arbitrary "
    "records with a channel multiplied by c in +-10^[-12,12]: XX->c^2 XX, XY->c XY, Gxx/Gxy likewise, coherence "
    "unchanged, Hxy scaled by c_y/c_x within the rounding budget; (c) relabelling fs->a*fs: a=2^k for full plans "
    "(f, r, ENBW *a; Gxx,Gyy,Gxy /a; coh, Hxy, L, K, D unchanged, rtol 1e-12) and arbitrary a>0 for single-bin "
    "requests with explicit L (budget). The relabelled analysis is a new analyzer or a fresh analyzer whose public fs attribute was set to a*fs. Non-trivial: (a) non-integer bin; (b) |c| not in {0,1}; (c) a != 1."
)
ASSUMPTIONS = [
    "for detrend orders 1 and 2 the sinusoid must be 1.5 bins further from 0/Nyquist than the window main lobe: the "
    "removed linear/quadratic trend has a windowed spectrum (t*w, t^2*w) whose main lobe is about one bin wider "
    "(measured: up to 64*10^(-P/20) at the main-lobe edge, <=0.6*10^(-P/20) one bin further out) - oracle correction, "
    "not a defect",
]
SHARDS_QUICK = 4


# ------------------------------------------------------------------ (a) sinusoid power
@st.composite
def sine_case(draw, tier):
    P = draw(st.one_of(st.floats(60, 200), st.sampled_from([60.0, 100.0, 150.0, 200.0])))
    order = draw(st.sampled_from([-1, 0, 1, 2]))
    ml = math.sqrt(1 + refs.kaiser_alpha(P) ** 2)
    margin = ml + (1.5 if order >= 1 else 0.0)
    Lmin = int(math.ceil(4 * margin)) + 6
    L = draw(st.one_of(st.integers(Lmin, 2 * Lmin), gens.loguniform_int(Lmin, 4096 if tier == "quick" else 32768)))
    N = draw(st.integers(L, 4 * L))
    pos = draw(st.one_of(st.floats(0.0, 1.0), st.sampled_from([0.0, 1.0])))
    b0 = margin + pos * (L / 2.0 - 2 * margin)
    if draw(st.integers(0, 5)) == 5:
        b0 = float(min(max(round(b0), math.ceil(margin)), math.floor(L / 2.0 - margin)))   # integer bin (trivial class)
    return {"P": P, "order": order, "L": L, "N": N, "b0": b0,
            "fs": draw(st.sampled_from([1.0, 2.0, 1000.0, 0.3, 44100.0])),
            "A": draw(gens.loguniform(1e-3, 1e3)), "phi": draw(st.floats(0, 2 * math.pi)),
            "by": draw(st.sampled_from(["L", "fres", "fres_jitter"])), "jit": draw(st.floats(-0.45, 0.45)), "backend": draw(st.sampled_from(["numba", "numba", "numpy"])),
            "olap": draw(st.sampled_from(["default", 0.0, 0.5, 0.75])),
            "win": draw(st.sampled_from(["kaiser", "np.kaiser", "sp.kaiser"]))}


def oracle_sine(case):
    from speckit import SpectrumAnalyzer
    P, L, N, fs, A = case["P"], case["L"], case["N"], case["fs"], case["A"]
    f0 = case["b0"] * fs / L
    n = np.arange(N)
    x = A * np.sin(2 * np.pi * f0 * n / fs + case["phi"])
    win = gens.resolve_window(case["win"])[0]
    an = SpectrumAnalyzer(x, fs, order=case["order"], psll=P, win=win, olap=case["olap"], backend=case["backend"])
    if case["by"] == "L":
        res = an.compute_single_bin(f0, L=L)
    elif case["by"] == "fres_jitter":
        # a requested resolution whose fs/fres is not an integer: the segment length is its rounding (still L)
        res = an.compute_single_bin(f0, fres=fs / (L + case.get("jit", 0.3)))
    else:
        res = an.compute_single_bin(f0, fres=fs / L)
    viol = []
    if int(res.L[0]) != L:
        viol.append(V("single_bin_L", L=int(res.L[0]), requested=L, by=case["by"]))
    ps = float(res.ps[0])
    err = abs(ps / (A * A / 2.0) - 1.0)
    bound = 4.0 * 10 ** (-P / 20.0) + 1e-9
    if not err <= bound:
        viol.append(V("sinusoid_power", ps=ps, expected=A * A / 2, rel_err=err, bound=bound, P=P, L=L, b0=case["b0"],
                      order=case["order"], by=case["by"], backend=case["backend"], K=int(res.K[0])))
    w = refs.kaiser_window(L, P)
    enbw = fs * np.sum(w * w) / np.sum(w) ** 2
    if abs(float(res.ENBW[0]) - enbw) > 1e-12 * enbw:
        viol.append(V("ENBW", got=float(res.ENBW[0]), expected=float(enbw), L=L, P=P))
    if abs(ps - float(res.psd[0]) * float(res.ENBW[0])) > 1e-12 * abs(ps):
        viol.append(V("ps_ne_psd_times_ENBW", ps=ps, psd=float(res.psd[0]), ENBW=float(res.ENBW[0])))
    frac = abs(case["b0"] - round(case["b0"])) > 1e-6
    labels = ["sine:o=%d,by=%s,%s" % (case["order"], case["by"], case["backend"])]
    labels.append("sine:P>=150" if P >= 150 else "sine:P<150")
    return Res(viol, frac, labels, {"worst_sine_err_in_10^(-P/20)": err * 10 ** (P / 20.0)})


# ------------------------------------------------------------------ (a') ENBW / ps for every window, full analyses
@st.composite
def enbw_case(draw, tier):
    N = draw(gens.loguniform_int(32, 3000))
    cfg = draw(gens.analysis_config(N, backends=("numba",), Jmax=60, Kmax=30))
    return {"N": N, "cfg": cfg, "fs": draw(st.sampled_from([1.0, 3.7, 1000.0, 2.0 ** -5])),
            "rec": draw(gens.record(N, kinds=["noise", "ar1", "sines", "offset"]))}


def oracle_enbw(case):
    x = gens.materialise(case["rec"])
    cfg, fs = case["cfg"], case["fs"]
    res = gens.make_analyzer(x, fs, cfg).compute()
    wref = gens.resolve_window(cfg["win"])[1]
    viol = []
    Ls = np.asarray(res.L)
    for Lv in sorted(set(Ls.tolist())):
        w = wref(int(Lv), cfg["psll"])
        enbw = fs * np.sum(w * w) / np.sum(w) ** 2
        got = np.asarray(res.ENBW)[Ls == Lv]
        if np.any(np.abs(got - enbw) > 1e-12 * enbw):
            viol.append(V("ENBW", L=int(Lv), got=float(got[0]), expected=float(enbw), win=cfg["win"]))
            break
        S2 = float(np.sum(w * w))
        gx = 2.0 * np.asarray(res.XX)[Ls == Lv] / (fs * S2)
        if np.any(np.abs(np.asarray(res.Gxx)[Ls == Lv] - gx) > 1e-12 * np.abs(gx) + 1e-300):
            viol.append(V("Gxx_ne_2XX_over_fs_S2", L=int(Lv), win=cfg["win"]))
            break
    ps, psd, en = np.asarray(res.ps), np.asarray(res.psd), np.asarray(res.ENBW)
    if np.any(np.abs(ps - psd * en) > 1e-12 * np.abs(ps) + 1e-300):
        viol.append(V("ps_ne_psd_times_ENBW", win=cfg["win"]))
    asd = np.asarray(res.asd)
    if np.any(np.abs(asd * asd - psd) > 1e-12 * np.abs(psd) + 1e-300):
        viol.append(V("asd2_ne_psd", win=cfg["win"]))
    return Res(viol, len(set(Ls.tolist())) >= 2, ["enbw:win=" + cfg["win"]])


# ------------------------------------------------------------------ (b) amplitude scaling
@st.composite
def scale_case(draw, tier):
    N = draw(gens.loguniform_int(16, 2000))
    cfg = draw(gens.analysis_config(N, Jmax=30, Kmax=20))
    c = draw(st.one_of(st.sampled_from([2.0, -1.0, -3.0, 0.5, 1e6, 1e-6, -1e-3, 1e-10, 1e10]), gens.loguniform(1e-6, 1e6),
                       gens.loguniform(1e-12, 1e12)))
    if draw(st.booleans()):
        c = -c
    return {"N": N, "cfg": cfg, "fs": draw(st.sampled_from([1.0, 10.0, 0.01])), "c": c,
            "which": draw(st.sampled_from(["x", "y", "both"])), "c2": draw(gens.loguniform(1e-3, 1e3)),
            "rec": draw(gens.pair(N, rel_kinds=["indep", "partial", "partial", "delay", "gain"], scale=False)),
            "single": draw(st.booleans()), "fbin": draw(st.floats(0.01, 0.49)), "L": draw(st.integers(2, N))}


def _run(data, fs, cfg, case):
    an = gens.make_analyzer(data, fs, cfg)
    if case["single"]:
        return an.compute_single_bin(case["fbin"] * fs, L=case["L"])
    return an.compute()


def oracle_scale(case):
    x, y = gens.materialise_pair(case["rec"])
    cfg, fs = case["cfg"], case["fs"]
    cx = case["c"] if case["which"] in ("x", "both") else 1.0
    cy = (case["c"] if case["which"] == "y" else case["c2"] if case["which"] == "both" else 1.0)
    r0 = _run(np.vstack([x, y]), fs, cfg, case)
    r1 = _run(np.vstack([cx * x, cy * y]), fs, cfg, case)
    viol = []
    wref = gens.resolve_window(cfg["win"])[1]
    nf = len(r0.f)
    if len(r1.f) != nf or not np.array_equal(np.asarray(r0.L), np.asarray(r1.L)):
        viol.append(V("plan_depends_on_data_scale"))
        return Res(viol, False, [])
    idxs = range(nf) if nf <= 30 else sorted(set(int(round(i * (nf - 1) / 29.0)) for i in range(30)))
    for j in idxs:
        L = int(r0.L[j])
        D = np.asarray(r0.D[j], dtype=np.int64)
        om = 2 * np.pi * float(r0.f[j]) / fs
        w = wref(L, cfg["psll"])
        Sx = tol.seg_scale(x, D, L, w, cfg["order"])
        Sy = tol.seg_scale(y, D, L, w, cfg["order"])
        bx, by, bxy = tol.budget2(L, om, Sx, len(D)), tol.budget2(L, om, Sy, len(D)), tol.budget2(L, om, (Sx ** 0.5 * Sy ** 0.5), len(D))
        XX0, YY0, XY0 = float(r0.XX[j]), float(r0.YY[j]), complex(r0.XY[j])
        XX1, YY1, XY1 = float(r1.XX[j]), float(r1.YY[j]), complex(r1.XY[j])
        checks = [("XX", XX1, cx * cx * XX0, 4 * cx * cx * bx), ("YY", YY1, cy * cy * YY0, 4 * cy * cy * by),
                  ("XY", XY1, cx * cy * XY0, 4 * abs(cx * cy) * bxy)]
        for name, got, exp, bud in checks:
            if not abs(got - exp) <= bud:
                viol.append(V("raw_scaling", stat=name, got=got, expected=exp, budget=bud, bin=int(j), cx=cx, cy=cy))
        # derived quantities: same laws, relative tolerance from the budgets
        S2 = float(np.sum(w * w))
        k = 2.0 / (fs * S2) if S2 > 0 else 0.0
        for name, got, exp, bud in (("Gxx", float(r1.Gxx[j]), cx * cx * float(r0.Gxx[j]), 4 * cx * cx * bx * k),
                                    ("Gyy", float(r1.Gyy[j]), cy * cy * float(r0.Gyy[j]), 4 * cy * cy * by * k),
                                    ("Gxy", complex(r1.Gxy[j]), cx * cy * complex(r0.Gxy[j]), 4 * abs(cx * cy) * bxy * k)):
            if not abs(got - exp) <= bud * (1 + 1e-9) + 1e-12 * abs(exp):
                viol.append(V("density_scaling", q=name, got=got, expected=exp, bin=int(j), cx=cx, cy=cy))
        if XX0 > 1e3 * bx and YY0 > 1e3 * by:
            delta = 2 * bxy / max(abs(XY0), 1e-300) + bx / XX0 + by / YY0
            c0, c1 = float(r0.coh[j]), float(r1.coh[j])
            if abs(XY0) > 1e3 * bxy and not abs(c1 - c0) <= 8 * delta * c0 + 1e-12:
                viol.append(V("coherence_not_scale_invariant", c0=c0, c1=c1, bin=int(j), cx=cx, cy=cy))
            H0, H1 = complex(r0.Hxy[j]), complex(r1.Hxy[j])
            hb = 8 * (bxy / XX0 + abs(H0) * bx / XX0) * abs(cy / cx) + 1e-12 * abs(H0 * cy / cx)
            if not abs(H1 - (cy / cx) * H0) <= hb:
                viol.append(V("Hxy_scaling", H0=H0, H1=H1, ratio=cy / cx, bin=int(j)))
        if viol:
            break
    nontrivial = abs(abs(case["c"]) - 1.0) > 1e-9
    return Res(viol, nontrivial, ["scale:" + case["which"], "scale:single" if case["single"] else "scale:full"])


# ------------------------------------------------------------------ (c) relabelling the sampling rate
@st.composite
def relabel_case(draw, tier):
    N = draw(gens.loguniform_int(16, 2000))
    mode = draw(st.sampled_from(["auto", "csd"]))
    cfg = draw(gens.analysis_config(N, schedulers=("ltf", "vectorized_ltf", "new_ltf", "lpsd"), Jmax=40, Kmax=20))
    single = draw(st.booleans())
    if single:
        a = draw(st.one_of(gens.loguniform(1e-3, 1e3), st.sampled_from([2.0, 0.5, 1.0, 3.0, 1e3])))
    else:
        a = 2.0 ** draw(st.integers(-10, 10))
    return {"N": N, "mode": mode, "cfg": cfg, "fs": draw(st.sampled_from([1.0, 2.0, 0.37, 100.0])), "a": a,
            "single": single, "fbin": draw(st.floats(0.01, 0.49)), "L": draw(st.integers(2, N)),
            # the relabelled analysis: a new analyzer built with a*fs, or the public `fs` attribute of a freshly built
            # analyzer set to a*fs before anything was planned or computed
            "route": draw(st.sampled_from(["new", "new", "set_fs"])),
            "rec": draw(gens.pair(N, rel_kinds=["indep", "partial", "delay"]) if mode == "csd" else gens.record(N))}


def oracle_relabel(case):
    cfg, fs, a = case["cfg"], case["fs"], case["a"]
    if case["mode"] == "csd":
        x, y = gens.materialise_pair(case["rec"])
        data = np.vstack([x, y])
    else:
        x, y = gens.materialise(case["rec"]), None
        data = x
    an0 = gens.make_analyzer(data, fs, cfg)
    if case.get("route") == "set_fs":
        an1 = gens.make_analyzer(data, fs, cfg)
        an1.fs = float(a * fs)
    else:
        an1 = gens.make_analyzer(data, a * fs, cfg)
    if case["single"]:
        r0 = an0.compute_single_bin(case["fbin"] * fs, L=case["L"])
        r1 = an1.compute_single_bin(case["fbin"] * fs * a, L=case["L"])
    else:
        r0, r1 = an0.compute(), an1.compute()
    viol, labels = [], ["relabel:single" if case["single"] else "relabel:full:" + cfg["scheduler"], "relabel:route=" + case.get("route", "new")]
    same_plan = (len(r0.f) == len(r1.f) and np.array_equal(np.asarray(r0.L), np.asarray(r1.L))
                 and all(np.array_equal(np.asarray(p), np.asarray(q)) for p, q in zip(r0.D, r1.D)))
    if not same_plan:
        # Not a violation: the property speaks about densities/ENBW of the same analysis.  The vectorised scheduler
        # builds its lookup grid with log10/10**, which is not exactly scale-covariant even for a power of two, so a
        # frequency sitting on a grid point can look up the neighbouring L (seen: N=16, f=0.125, L=10 vs 11).  Such
        # cases are only counted; the iterative schedulers must still give identical plans (pure scaling by 2^k).
        labels.append("relabel:plan-changed")
        if not case["single"] and cfg["scheduler"] != "vectorized_ltf":
            viol.append(V("plan_changes_under_power_of_two_relabelling", a=a, sched=cfg["scheduler"]))
        return Res(viol, False, labels)
    rt = 1e-12 if not case["single"] else 1e-9

    def close(u, v, scale=None):
        u, v = np.asarray(u), np.asarray(v)
        s = np.abs(v) if scale is None else scale
        return bool(np.all(np.abs(u - v) <= rt * s + 1e-300))

    for name in ("f", "r", "ENBW"):
        if not close(getattr(r1, name), a * np.asarray(getattr(r0, name))):
            viol.append(V("relabel_frequency_like", q=name, a=a))
    if case["single"]:
        # omega = 2 pi (a f)/(a fs) may differ by an ulp: compare within the rounding budget
        wref = gens.resolve_window(cfg["win"])[1]
        L = int(r0.L[0])
        D = np.asarray(r0.D[0], dtype=np.int64)
        w = wref(L, cfg["psll"])
        om = 2 * np.pi * case["fbin"]
        Sx = tol.seg_scale(x, D, L, w, cfg["order"])
        Sy = Sx if y is None else tol.seg_scale(y, D, L, w, cfg["order"])
        S2 = float(np.sum(w * w))
        k0 = 2.0 / (fs * S2) if S2 > 0 else 0.0
        for name, S in (("Gxx", Sx), ("Gyy", Sy), ("Gxy", (Sx ** 0.5 * Sy ** 0.5))):
            bud = 4 * tol.budget2(L, om, S, len(D)) * k0
            if not abs(complex(getattr(r1, name)[0]) * a - complex(getattr(r0, name)[0])) <= bud:
                viol.append(V("relabel_density", q=name, a=a, got=complex(getattr(r1, name)[0]), base=complex(getattr(r0, name)[0])))
    else:
        amp = np.sqrt(np.abs(np.asarray(r0.Gxx) * np.asarray(r0.Gyy)))
        for name in ("Gxx", "Gyy", "Gxy"):
            if not close(np.asarray(getattr(r1, name)) * a, getattr(r0, name), amp if name == "Gxy" else None):
                viol.append(V("relabel_density", q=name, a=a))
        if case["mode"] == "csd":
            if not close(r1.coh, r0.coh, np.ones(len(r0.f))):
                viol.append(V("relabel_coherence", a=a))
            if not close(r1.Hxy, r0.Hxy, np.abs(np.asarray(r0.Hxy)) + 1e-300):
                viol.append(V("relabel_Hxy", a=a))
        for name in ("K", "navg", "b"):
            if not close(getattr(r1, name), getattr(r0, name)):
                viol.append(V("relabel_plan_field", q=name, a=a))
    return Res(viol, a != 1.0, labels)


PARTS = [
    Part("sine", sine_case, oracle_sine, n_quick=400, n_thorough=2500),
    Part("enbw", enbw_case, oracle_enbw, n_quick=60, n_thorough=400),
    Part("scale", scale_case, oracle_scale, n_quick=120, n_thorough=600),
    Part("relabel", relabel_case, oracle_relabel, n_quick=120, n_thorough=600),
]
QUOTAS = {"part:sine": {"quick": 800, "thorough": 10000}, "part:scale": {"quick": 120, "thorough": 3000},
          "part:relabel": {"quick": 100, "thorough": 3000}, "sine:P>=150": {"quick": 100, "thorough": 3000}}
