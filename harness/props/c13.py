"""C13 - inputs are handled robustly: sanitised, never modified, layout-independent."""
import numpy as np
from hypothesis import strategies as st

from .. import gens, refs, tol
from ..api import Part, Res, V

PROPERTY_ID = "C13"
RULE = (
    "Generated records (N>=8) with non-finite samples (NaN, +-inf; single, runs, whole channel, first/last sample) in "
    "layouts {1-D; (2,N) C/F order; (N,2) C/F; list/tuple of channels; strided and negative-stride views; pandas "
    "DataFrame N x 2} x dtypes {float64, float32, float16, int16/32/64, uint8, bool, >f8, longdouble} (values exactly "
    "representable), orders, auto/cross, compute and compute_single_bin. Oracle: (i) result(record) == "
    "result(zero-filled float64 copy) within the rounding budget; (ii) the caller's object is bit-for-bit unchanged "
    "(bytes, shape, strides, flags compared before/after); (iii) every layout/dtype of the same values gives the same "
    "raw statistics (budget); (iv) for finite input every element of Gxx,Gyy,Gxy,coh,ccoh,Hxy,Hyx,cf,cf_rad,GyyCx,"
    "GyyRx,GyySx,ENBW,ps/cs is finite and every *_dev/*_error is finite where coh>0. Non-trivial: C-contiguous "
    "float64 input containing a non-finite sample (the aliasing case), or a non-default layout/dtype, or a "
    "zero/constant channel."
)
ASSUMPTIONS = [
    "N>=8 so that (2,N) vs (N,2) is unambiguous (2x2 data is documented as rows=channels)",
    "integer/low-precision dtypes hold values exactly representable in float64",
]
SHARDS_QUICK = 4

LAYOUTS_2 = ["2N_C", "2N_C", "2N_C", "2N_C_readonly", "2N_F", "N2_C", "N2_F", "list", "tuple", "strided", "negstride", "dataframe", "view_of_bigger"]
LAYOUTS_1 = ["1d", "1d", "1d", "1d_readonly", "list", "strided", "negstride", "series_values", "view_of_bigger"]
DTYPES = ["float64", "float64", "float64", "float64", "float64", "float32", "float16", "int16", "int32", "int64", "uint8", "bool", ">f8", "longdouble"]


@st.composite
def case_(draw, tier):
    N = draw(st.one_of(st.integers(8, 64), gens.loguniform_int(8, 2000)))
    mode = draw(st.sampled_from(["auto", "csd", "csd"]))
    dtype = draw(st.sampled_from(DTYPES))
    floaty = dtype in ("float64", "float32", "float16", ">f8", "longdouble")
    case = {"N": N, "mode": mode, "dtype": dtype, "layout": draw(st.sampled_from(LAYOUTS_2 if mode == "csd" else LAYOUTS_1)),
            "vseed": draw(st.integers(0, 2 ** 31 - 1)),
            "vals": draw(st.sampled_from(["ints", "ints", "zeros", "const", "onezero"])),
            "cfg": draw(gens.analysis_config(N, Jmax=20, Kmax=10)), "fs": draw(st.sampled_from([1.0, 10.0])),
            "how": draw(st.sampled_from(["full", "single"]))}
    bad = []
    if floaty and draw(st.booleans()):
        kind = draw(st.sampled_from(["single", "run", "channel", "first", "last", "scattered"]))
        val = draw(st.sampled_from(["nan", "inf", "-inf", "mixed"]))
        bad = [kind, val, draw(st.integers(0, N - 1)), draw(st.integers(0, 1))]
    case["bad"] = bad
    if case["how"] == "single":
        case["L"] = draw(st.integers(1, N))
        case["fbin"] = draw(st.floats(0.0, 0.5))
    return case


def base_values(case):
    """(nch, N) float64 array of exactly representable values."""
    N = case["N"]
    nch = 2 if case["mode"] == "csd" else 1
    rng = np.random.default_rng(case["vseed"])
    dt = case["dtype"]
    if dt == "bool":
        v = rng.integers(0, 2, (nch, N)).astype(np.float64)
    elif dt == "uint8":
        v = rng.integers(0, 200, (nch, N)).astype(np.float64)
    elif dt in ("float64", ">f8", "longdouble"):
        v = rng.standard_normal((nch, N))          # full 53-bit mantissas (exact in all three)
    else:
        v = rng.integers(-60, 61, (nch, N)).astype(np.float64)
    if case["vals"] == "zeros":
        v[:] = 0
    elif case["vals"] == "const":
        v[:] = 3.0 if dt != "bool" else 1.0
    elif case["vals"] == "onezero" and nch == 2:
        v[1] = 0
    return v


def inject(v, bad):
    """Non-finite samples (on a float copy)."""
    v = v.copy()
    if not bad:
        return v
    kind, val, pos, ch = bad
    ch = min(ch, v.shape[0] - 1)
    N = v.shape[1]
    vals = {"nan": [np.nan], "inf": [np.inf], "-inf": [-np.inf], "mixed": [np.nan, np.inf, -np.inf]}[val]
    if kind == "single":
        idx = [pos]
    elif kind == "run":
        idx = list(range(pos, min(N, pos + 5)))
    elif kind == "channel":
        idx = list(range(N))
    elif kind == "first":
        idx = [0]
    elif kind == "last":
        idx = [N - 1]
    else:
        idx = list(range(pos % 3, N, 3))
    for i, k in enumerate(idx):
        v[ch, k] = vals[i % len(vals)]
    return v


def layout(v, case):
    """Build the caller's object in the requested layout/dtype.  Returns (obj, arrays_to_watch)."""
    dt = np.dtype(case["dtype"])
    lay = case["layout"]
    a = v.astype(dt)
    if v.shape[0] == 1:
        a1 = a[0]
        if lay in ("1d", "1d_readonly"):
            o = np.ascontiguousarray(a1)
            if lay == "1d_readonly":
                o.setflags(write=False)       # a read-only buffer (memory map, pandas block): must be accepted and left alone
            return o, [o]
        if lay == "list":
            o = [x.item() for x in a1]
            return o, []
        if lay == "strided":
            big = np.zeros(2 * len(a1), dtype=dt)
            big[::2] = a1
            return big[::2], [big]
        if lay == "negstride":
            big = np.ascontiguousarray(a1[::-1])
            return big[::-1], [big]
        if lay == "series_values":
            import pandas as pd
            srs = pd.Series(a1.astype(np.float64) if dt.kind == "f" and dt.itemsize > 8 else a1)
            return srs.values, [srs.values]
        big = np.zeros(len(a1) + 7, dtype=dt)
        big[3:3 + len(a1)] = a1
        return big[3:3 + len(a1)], [big]
    if lay in ("2N_C", "2N_C_readonly"):
        o = np.ascontiguousarray(a)
        if lay == "2N_C_readonly":
            o.setflags(write=False)
        return o, [o]
    if lay == "2N_F":
        o = np.asfortranarray(a)
        return o, [o]
    if lay == "N2_C":
        o = np.ascontiguousarray(a.T)
        return o, [o]
    if lay == "N2_F":
        o = np.asfortranarray(a.T)
        return o, [o]
    if lay == "list":
        chans = [np.ascontiguousarray(a[0]), np.ascontiguousarray(a[1])]
        return chans, chans
    if lay == "tuple":
        chans = (np.ascontiguousarray(a[0]), np.ascontiguousarray(a[1]))
        return chans, list(chans)
    if lay == "strided":
        big = np.zeros((2, 2 * a.shape[1]), dtype=dt)
        big[:, ::2] = a
        return big[:, ::2], [big]
    if lay == "negstride":
        big = np.ascontiguousarray(a[:, ::-1])
        return big[:, ::-1], [big]
    if lay == "dataframe":
        import pandas as pd
        aa = a.astype(np.float64) if dt == np.dtype("longdouble") or dt == np.dtype(">f8") else a
        df = pd.DataFrame({"a": aa[0], "b": aa[1]})
        return df, [df["a"].values, df["b"].values]
    big = np.zeros((2, a.shape[1] + 7), dtype=dt)
    big[:, 3:3 + a.shape[1]] = a
    return big[:, 3:3 + a.shape[1]], [big]


def snapshot(arrs):
    return [(x.tobytes(), x.shape, x.strides, x.flags.c_contiguous, x.flags.f_contiguous, x.flags.writeable, str(x.dtype))
            for x in arrs]


def _run(obj, case):
    an = gens.make_analyzer(obj, case["fs"], case["cfg"])
    if case["how"] == "single":
        return an.compute_single_bin(case["fbin"] * case["fs"], L=case["L"])
    return an.compute()


FINITE = ["Gxx", "Gyy", "Gxy", "ENBW", "XX", "YY", "XY", "M2"]
FINITE_CSD = ["coh", "ccoh", "Hxy", "Hyx", "cf", "cf_rad", "cf_deg", "GyyCx", "GyyRx", "GyySx", "cs", "csd", "Gyx"]
FINITE_AUTO = ["ps", "psd", "asd"]
ERRS = ["Gxx_dev", "Gyy_dev", "Gxy_dev", "Hxy_dev", "coh_dev", "Gxx_error", "Gyy_error", "Gxy_error", "Hxy_mag_error",
        "Hxy_rad_error", "Hxy_deg_error", "coh_error", "XY_emp_var", "XY_emp_dev"]


def oracle(case):
    cfg, fs, mode = case["cfg"], case["fs"], case["mode"]
    v = base_values(case)
    vbad = inject(v, case["bad"])
    clean = np.nan_to_num(vbad, nan=0.0, posinf=0.0, neginf=0.0)
    obj, watch = layout(vbad, case)
    before = snapshot(watch)
    res = _run(obj, case)
    after = snapshot(watch)
    viol = []
    if before != after:
        changed = [i for i, (p, q) in enumerate(zip(before, after)) if p != q]
        viol.append(V("caller_array_modified", layout=case["layout"], dtype=case["dtype"], which=changed,
                      contiguous=[b[3] for b in before], bad=case["bad"]))
    ref_data = clean[0].copy() if mode == "auto" else clean.copy()
    ref = _run(ref_data, case)
    wref = gens.resolve_window(cfg["win"])[1]
    if len(ref.f) != len(res.f) or not np.array_equal(np.asarray(ref.L), np.asarray(res.L)):
        viol.append(V("plan_depends_on_layout", layout=case["layout"], dtype=case["dtype"]))
        return Res(viol, False, [])
    x = clean[0]
    y = clean[1] if mode == "csd" else None
    nf = len(res.f)
    checked_ref = 0
    for j in (range(nf) if nf <= 20 else sorted(set(int(round(i * (nf - 1) / 19.0)) for i in range(20)))):
        L = int(res.L[j])
        D = np.asarray(res.D[j], dtype=np.int64)
        om = 2 * np.pi * float(res.f[j]) / fs
        w = wref(L, cfg["psll"])
        Sx = tol.seg_scale(x, D, L, w, cfg["order"])
        Sy = Sx if y is None else tol.seg_scale(y, D, L, w, cfg["order"])
        buds = {"XX": tol.budget2(L, om, Sx, len(D)), "YY": tol.budget2(L, om, Sy, len(D)), "XY": tol.budget2(L, om, (Sx ** 0.5 * Sy ** 0.5), len(D)),
                "M2": tol.budget4(L, om, Sx, Sy, len(D))}
        for k, bud in buds.items():
            a, b = getattr(res, k)[j], getattr(ref, k)[j]
            if not abs(a - b) <= 2 * bud:
                viol.append(V("result_differs_from_zero_filled_float64_copy", stat=k, got=a, ref=b, budget=2 * bud, bin=int(j),
                              layout=case["layout"], dtype=case["dtype"], bad=case["bad"]))
                break
        if viol:
            break
        # independent anchor: the same bin from the direct-DFT reference on the zero-filled float64 values
        if checked_ref < 6:
            checked_ref += 1
            r0 = refs.dft_stats(x, y, D, L, w, om, cfg["order"])
            for k, refv in (("XX", r0["XX"]), ("YY", r0["YY"]), ("XY", r0["XY"] if mode == "csd" else complex(r0["XX"], 0))):
                if not abs(getattr(res, k)[j] - refv) <= buds[k]:
                    viol.append(V("result_differs_from_reference_on_zero_filled_values", stat=k, got=getattr(res, k)[j], ref=refv,
                                  budget=buds[k], bin=int(j), layout=case["layout"], dtype=case["dtype"], bad=case["bad"]))
                    break
            if viol:
                break
    # (iv) finiteness for finite input
    if not case["bad"]:
        names = FINITE + (FINITE_CSD if mode == "csd" else FINITE_AUTO)
        for nm in names:
            val = getattr(res, nm)
            if val is None or not np.all(np.isfinite(np.asarray(val))):
                viol.append(V("non_finite_quantity_for_finite_input", q=nm, vals=case["vals"], layout=case["layout"]))
        coh = np.asarray(res.coh) if mode == "csd" else np.ones(nf)
        ok = coh > 0
        with np.errstate(all="ignore"):
            for nm in ERRS:
                val = getattr(res, nm)
                if val is None:
                    continue
                if not np.all(np.isfinite(np.asarray(val)[ok])):
                    viol.append(V("non_finite_error_bar_where_coherence_positive", q=nm, vals=case["vals"]))
    aliasing = bool(case["bad"]) and case["dtype"] == "float64" and case["layout"] in ("1d", "2N_C", "1d_readonly", "2N_C_readonly", "list", "tuple", "series_values", "view_of_bigger")
    nondefault = case["layout"] not in ("1d", "2N_C") or case["dtype"] != "float64"
    degenerate = case["vals"] in ("zeros", "const", "onezero")
    labels = ["layout:" + case["layout"], "dtype:" + case["dtype"], "vals:" + case["vals"], "how:" + case["how"]]
    if case["bad"]:
        labels.append("nonfinite:" + case["bad"][0])
    if aliasing:
        labels.append("aliasing-candidate")
    return Res(viol, aliasing or nondefault or degenerate, labels)


PARTS = [Part("inputs", case_, oracle, n_quick=200, n_thorough=3000)]
QUOTAS = {"aliasing-candidate": {"quick": 20, "thorough": 1000}, "vals:zeros": {"quick": 40, "thorough": 1000},
          "layout:N2_C": {"quick": 6, "thorough": 150}, "layout:dataframe": {"quick": 6, "thorough": 150}}
