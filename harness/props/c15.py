"""C15 - optimal multi-input subtraction yields a physical, consistent residual."""
import numpy as np
from hypothesis import strategies as st

from .. import gens
from ..api import Part, Res, V

PROPERTY_ID = "C15"
RULE = (
    "Generated systems: q in 1..4 inputs = M*(independent Gaussian noises) with cond(M)<=30, output = sum_i c_i * "
    "delay(input_i, d_i) + sigma*noise (sigma in {0,0.1,1}, d_i in 0..4; sigma=0,d=0 for the exact static-combination "
    "clause), N in 1500..6000, analysis options (scheduler, order, window, Jdes, Kdes, Lmin>=8). Per case the numeric "
    "solver, the analytic solver (q<=3 quick, <=4 thorough), a permutation and an invertible re-mix (cond<=30) of the "
    "inputs are evaluated. Oracle on bins with K>q and S00>0: 0 <= asd_res <= asd_out(1+1e-6); static combination => "
    "asd_res <= 1e-5 asd_out; permutation / re-mix / analytic-vs-numeric differences <= 1e-5 asd_out (bins with "
    "K>=2q+2); q=1: SISO == MISO_numeric == MISO_analytic == sqrt(Gyy(1-coh)) within 1e-6 asd_out, including delayed "
    "couplings. Inputs carry constant levels up to 30 rms; every comparison must exceed both the fixed tolerance and the rounding of "
    "S00 - s^H A^-1 s (256 eps cond(A) S00 for the numeric, 4096 eps cond(A)^2 S00 for the closed-form solver). Non-trivial: q>=2 with a non-diagonal mix, or q=1 with d>=1 (complex coupling)."
)
ASSUMPTIONS = ["invariance tolerances 1e-5/1e-6 relative to the output ASD (calibrated: <=5e-8 on the pinned tree, i.e. sqrt of double-precision cancellation)"]
SHARDS_QUICK = 4


@st.composite
def case_(draw, tier):
    # (taken from a wide-range integer: small sampled_from draws are strongly skewed towards their first elements
    # in short runs - seen 75 of 112 cases with q=1)
    table = [1, 1, 2, 2, 3, 3, 4] if tier == "thorough" else [1, 1, 1, 2, 2, 3, 4]
    q = table[draw(st.integers(0, 2 ** 31 - 1)) % 7]
    N = draw(st.integers(1500, 6000))
    if draw(st.integers(0, 7)) == 7:
        N = draw(st.integers(60000, 150000))       # long record: segments of 1e4..1e5 samples at the low-frequency end
        q = min(q, 2)                              # (a case costs about 15 q^2 analyses: minutes each for q=4 at this length)
    static = draw(st.integers(0, 3)) == 3
    return {"q": q, "N": N, "seed": draw(st.integers(0, 2 ** 31 - 1)),
            "sigma": 0.0 if static else draw(st.sampled_from([0.1, 1.0, 0.0])),
            "delays": [0] * q if static else [draw(st.integers(0, 4)) for _ in range(q)],
            "coefs": [draw(st.sampled_from([1.0, -0.5, 2.0, 0.3])) for _ in range(q)],
            "fs": draw(st.sampled_from([1.0, 10.0])),
            "kw": {"scheduler": draw(st.sampled_from(["ltf", "vectorized_ltf", "new_ltf"])), "order": draw(st.sampled_from([-1, 0, 1, 2])),
                   "win": draw(st.sampled_from(["kaiser", "hann"])), "Jdes": draw(st.integers(10, 40)), "Kdes": draw(st.integers(5, 40)),
                   "Lmin": draw(st.sampled_from([8, 16, 64])), "psll": draw(st.sampled_from([200, 100]))},
            "analytic": q <= (4 if tier == "thorough" else 3),
            "dtype0": draw(st.sampled_from(["float64", "float64", "int64", "float32", "list"])), "which0": draw(st.integers(0, 3)),
            # constant levels on the inputs (a reference channel need not be zero-mean): up to 30 times its rms
            "pedestals": [draw(st.sampled_from([0.0, 0.0, 0.0, 2.0, -5.0, 30.0])) for _ in range(q)]}


def mix_matrix(rng, q):
    R = rng.standard_normal((q, q))
    U, s, Vt = np.linalg.svd(R)
    s = np.clip(s, s.max() / 30.0, None)
    return U @ np.diag(s) @ Vt


def delay(x, d):
    return x if d == 0 else np.concatenate([np.zeros(d), x[:-d]])


def oracle(case):
    from speckit import compute_spectrum, systems
    q, N, fs, kw = case["q"], case["N"], case["fs"], dict(case["kw"])
    rng = np.random.default_rng(case["seed"])
    src = rng.standard_normal((q, N))
    M = mix_matrix(rng, q) if q > 1 else np.ones((1, 1))
    inputs = [np.ascontiguousarray(r) + p for r, p in zip(M @ src, case.get("pedestals", [0.0] * q))]
    # one input (often the first) stored as raw integer counts / float32 / a python list: the values are made exactly
    # representable first, so every relation between the records is unchanged
    k0 = case.get("which0", 0) % q if case.get("dtype0", "float64") != "float64" else None
    if k0 is not None:
        if case["dtype0"] == "int64":
            inputs[k0] = np.round(inputs[k0] * 1000.0)
        elif case["dtype0"] == "float32":
            inputs[k0] = inputs[k0].astype(np.float32).astype(np.float64)
    out = sum(c * delay(x, d) for c, x, d in zip(case["coefs"], inputs, case["delays"])) + case["sigma"] * rng.standard_normal(N)
    viol = []
    inputs64 = [np.asarray(v, dtype=np.float64) for v in inputs]
    if k0 is not None:
        typed = {"int64": lambda v: v.astype(np.int64), "float32": lambda v: v.astype(np.float32), "list": lambda v: [float(t) for t in v]}
        inputs = list(inputs)
        inputs[k0] = typed[case["dtype0"]](inputs64[k0])
    f, a_num = systems.MISO_numeric_optimal_spectral_analysis(inputs, out, fs, **kw)
    ref = compute_spectrum(out, fs, **kw)
    K = np.asarray(ref.navg)
    asd_out = np.asarray(ref.asd)
    ok = (K > q) & (asd_out > 0)
    strong = (K >= 2 * q + 2) & (asd_out > 0)
    static = case["sigma"] == 0.0 and not any(case["delays"])

    def first(mask):
        return int(np.argmax(mask))

    def bounds(a, tag):
        # the upper bound up to the rounding of the difference S00 - s^H A^-1 s (eps*cond for the numeric solver,
        # eps*cond^2 for the closed-form one; with K barely above q the sample matrix itself is nearly singular)
        floor = cancel_floor * (16.0 * condk if tag == "analytic" else 1.0)
        bad = ok & ~((a >= 0) & (a * a <= asd_out ** 2 * ((1 + 1e-6) ** 2 + floor)))
        if bad.any():
            j = first(bad)
            viol.append(V("residual_outside_0_to_output", solver=tag, bin=j, res=float(a[j]), out=float(asd_out[j]), K=int(K[j]), q=q))
        if static:
            floor = cancel_floor * (16.0 * condk if tag == "analytic" else 1.0)
            bad = strong & (a > 1e-5 * asd_out) & (a * a > floor * asd_out ** 2)
            if bad.any():
                j = first(bad)
                viol.append(V("static_combination_not_cancelled", solver=tag, bin=j, res=float(a[j]), out=float(asd_out[j]), q=q))

    def same(a, b, tag, tolr=1e-5, fac=1.0):
        # the residual power is a difference S00 - s^H A^-1 s: its rounding error is eps * cond(A) * S00, which only
        # matters when the inputs are nearly collinear at a bin (common pedestals leaking into the lowest bins)
        bad = strong & (np.abs(a - b) > tolr * asd_out) & (np.abs(a * a - b * b) > fac * cancel_floor * asd_out ** 2)
        if bad.any():
            j = first(bad)
            viol.append(V("residual_differs", what=tag, bin=j, a=float(a[j]), b=float(b[j]), out=float(asd_out[j]), K=int(K[j]), q=q,
                          delays=case["delays"]))

    if not np.array_equal(np.asarray(f), np.asarray(ref.f)):
        viol.append(V("frequency_grid_differs"))
        return Res(viol, False, [])
    # independent reference: least-squares residual S00 - s^H A^-1 s from pairwise spectra (pinned by C05/C09)
    nf = len(f)
    A = np.zeros((nf, q, q), dtype=complex)
    sv = np.zeros((nf, q), dtype=complex)
    for i in range(q):
        pi = compute_spectrum(np.vstack([inputs64[i], out]), fs, **kw)
        sv[:, i] = np.conj(np.asarray(pi.Gxy))
        A[:, i, i] = np.asarray(pi.Gxx)
        for j in range(i + 1, q):
            pij = compute_spectrum(np.vstack([inputs64[i], inputs64[j]]), fs, **kw)
            A[:, i, j] = np.conj(np.asarray(pij.Gxy))
            A[:, j, i] = np.asarray(pij.Gxy)
    a_ref = np.zeros(nf)
    cancel_floor = np.zeros(nf)
    # The closed-form ("analytic") solver expands determinants: its error grows like eps * cond^2 (measured on the repaired
    # tree, q=4, inputs with common pedestals and order -1: 0.7 eps cond^2 of S00 at cond 1e6, 630 eps cond^2 at cond 1e7 with
    # K = q+1, where it returns 3.6 times the output).  Its clauses are therefore judged up to 4096 eps cond^2 S00, which
    # amounts to no claim once cond exceeds about 1e6; the numeric solver keeps 256 eps cond.
    condk = np.ones(nf)
    for k in np.nonzero(ok)[0]:
        with np.errstate(all="ignore"):
            ck = float(np.linalg.cond(A[k]))
        cancel_floor[k] = 256.0 * np.finfo(float).eps * (ck if np.isfinite(ck) else 1e300)
        condk[k] = ck if np.isfinite(ck) else 1e300
    bounds(a_num, "numeric")
    for k in np.nonzero(strong)[0]:
        sol = np.linalg.solve(A[k], sv[k])
        a_ref[k] = np.sqrt(max(float(np.asarray(ref.Gxx)[k] - np.real(np.vdot(sv[k], sol))), 0.0))
    same(a_num, a_ref, "numeric_vs_least_squares_reference")
    if case["analytic"]:
        _, a_ana = systems.MISO_analytic_optimal_spectral_analysis(inputs, out, fs, **kw)
        bounds(a_ana, "analytic")
        same(a_ana, a_num, "analytic_vs_numeric", fac=16.0 * condk)
    if q > 1:
        perm = rng.permutation(q)
        if np.array_equal(perm, np.arange(q)):
            perm = np.roll(perm, 1)
        _, a_perm = systems.MISO_numeric_optimal_spectral_analysis([inputs[i] for i in perm], out, fs, **kw)
        same(a_perm, a_num, "permutation")
        M2 = mix_matrix(rng, q)
        _, a_mix = systems.MISO_numeric_optimal_spectral_analysis([np.ascontiguousarray(r) for r in (M2 @ np.vstack(inputs64))], out, fs, **kw)
        same(a_mix, a_num, "remix", fac=float(np.linalg.cond(M2)) ** 2)
    else:
        _, a_siso = systems.SISO_optimal_spectral_analysis(inputs[0], out, fs, **kw)
        pair = compute_spectrum(np.vstack([inputs64[0], out]), fs, **kw)
        expect = np.sqrt(np.asarray(pair.Gyy) * (1 - np.asarray(pair.coh)).clip(min=0))
        same(a_siso, expect, "SISO_vs_Gyy(1-coh)", 1e-6)
        same(a_siso, a_num, "SISO_vs_MISO_numeric", 1e-6)
        bounds(a_siso, "siso")
    nontrivial = (q >= 2) or (q == 1 and case["delays"][0] >= 1)
    labels = ["q=%d" % q, "static" if static else "dynamic", "analytic" if case["analytic"] else "numeric-only",
              "dtype0:" + case.get("dtype0", "float64")]
    if q == 1 and case["delays"][0] >= 1:
        labels.append("siso-delayed")
    if any(abs(p) > 1.0 for p in case.get("pedestals", [])):
        labels.append("input-pedestal,o=%d" % kw["order"])
    return Res(viol, nontrivial and bool(strong.any()), labels)


PARTS = [Part("systems", case_, oracle, n_quick=28, n_thorough=200, shrink=False)]
QUOTAS = {"siso-delayed": {"quick": 6, "thorough": 60}, "static": {"quick": 6, "thorough": 60}, "q=3": {"quick": 3, "thorough": 40}}
