"""C19 - time-domain detrending and RMS integration are exact and mutually consistent."""
import math
import os

import numpy as np
from hypothesis import strategies as st

from .. import gens, refs
from ..api import GridPart, Part, Res, V

PROPERTY_ID = "C19"
RULE = (
    "(a) generated series (N in 1..5000 incl. N<=order, orders 0..5, scales 1e-3..1e3 with offsets up to 1e6): "
    "polynomial_detrend output is orthogonal to a Legendre basis of degree <= min(order,N-1) (1e-9 |V_i||x|), maps any "
    "polynomial of degree <= order to 0 (1e-9 max|p|) and is idempotent (1e-9 max|x|); df_detrend == column-wise "
    "polynomial_detrend for the selected numeric columns, other columns and the input frame untouched, suffix/inplace "
    "semantics; (b) generated frequency grids (sorted, 2..400 points, log or irregular) with ASD arrays and bands "
    "(inside, partially outside, degenerate, empty): integral_rms == sqrt(trapezoid(asd^2)) over the grid points "
    "inside the band (1e-12), additive in power over adjacent bands sharing a grid point, monotone under nesting, 0 for an "
    "empty band; result.get_rms(band) == integral_rms(result.f, result.asd, band) also with a reversed band tuple; "
    "(c) statistical grid: white and mildly coloured records, Jdes>=200: full-band get_rms within 6% of std(x). "
    "Non-trivial: order>=2 with N>order+1 (a); band strictly inside the grid with >=2 points (b); every (c) case."
)
ASSUMPTIONS = ["(c) uses fixed-seed records; 6% tolerance (measured <=1.6% at Jdes>=200)"]
SHARDS_QUICK = 4


# ------------------------------------------------------------------ (a) detrending
@st.composite
def detrend_case(draw, tier):
    order = draw(st.integers(0, 5))
    N = draw(st.one_of(st.integers(1, 12), st.integers(8, 5000), gens.loguniform_int(8, 5000), gens.loguniform_int(5000, 70000)))
    return {"order": order, "N": N, "seed": draw(st.integers(0, 2 ** 31 - 1)), "scale": draw(st.sampled_from([1.0, 1e-3, 1e3])),
            "offset": draw(st.sampled_from([0.0, 1.0, 1e3, 1e6, -1e6])), "kind": draw(st.sampled_from(["noise", "walk", "poly", "ints"])),
            "pdeg": draw(st.integers(0, 5))}


def _series(case):
    rng = np.random.default_rng(case["seed"])
    N = case["N"]
    t = np.linspace(-1, 1, N) if N > 1 else np.zeros(1)
    if case["kind"] == "noise":
        x = rng.standard_normal(N)
    elif case["kind"] == "walk":
        x = np.cumsum(rng.standard_normal(N))
    elif case["kind"] == "ints":
        x = rng.integers(-100, 100, N).astype(float)
    else:
        x = np.polynomial.chebyshev.chebval(t, rng.standard_normal(min(case["pdeg"], case["order"]) + 1))
    return x * case["scale"] + case["offset"]


def oracle_detrend(case):
    from speckit.dsp import polynomial_detrend
    x = _series(case)
    N, order = case["N"], case["order"]
    y = np.asarray(polynomial_detrend(x.copy(), order=order), dtype=float)
    viol = []
    if y.shape != x.shape:
        viol.append(V("detrend_shape", N=N, order=order))
        return Res(viol, False, [])
    deg = min(order, N - 1)
    t = np.linspace(-1, 1, N) if N > 1 else np.zeros(1)
    Vm = np.polynomial.legendre.legvander(t, deg)
    nx = float(np.linalg.norm(x)) + 1e-300
    dots = np.abs(Vm.T @ y)
    lim = 1e-9 * np.linalg.norm(Vm, axis=0) * nx
    if np.any(dots > lim):
        k = int(np.argmax(dots / lim))
        viol.append(V("residual_not_orthogonal_to_polynomials", degree=k, dot=float(dots[k]), limit=float(lim[k]), N=N, order=order,
                      kind=case["kind"], offset=case["offset"]))
    if case["kind"] == "poly" and not np.max(np.abs(y)) <= 1e-9 * np.max(np.abs(x)) + 1e-300:
        viol.append(V("polynomial_not_removed", N=N, order=order, resid=float(np.max(np.abs(y))), scale=float(np.max(np.abs(x)))))
    y2 = np.asarray(polynomial_detrend(y.copy(), order=order), dtype=float)
    if not np.max(np.abs(y2 - y)) <= 1e-9 * np.max(np.abs(x)) + 1e-300:
        viol.append(V("not_idempotent", N=N, order=order, diff=float(np.max(np.abs(y2 - y)))))
    return Res(viol, order >= 2 and N > order + 1, ["detrend:o=%d" % order, "detrend:N<=order" if N <= order else "detrend:N>order"]
               + (["detrend:N>6000"] if N > 6000 else []))


@st.composite
def df_case(draw, tier):
    return {"N": draw(st.integers(2, 300)), "order": draw(st.integers(0, 3)), "seed": draw(st.integers(0, 2 ** 31 - 1)),
            "cols": draw(st.sampled_from([None, ["a"], ["a", "c"], ["s", "a"], ["i"]])), "inplace": draw(st.booleans()),
            "suffix": draw(st.sampled_from(["_detrended", "_dt"])), "index": draw(st.sampled_from(["range", "range", "sliced", "datetime", "float"]))}


def _reindex(df, kind):
    """Row labels other than 0..N-1: a frame sliced out of a longer one keeps its labels; time-stamp / float indices."""
    import pandas as pd
    n = len(df)
    if kind == "sliced":
        big = pd.concat([df, df], ignore_index=True)
        return big.iloc[n // 2: n // 2 + n].copy()
    if kind == "datetime":
        return df.set_index(pd.date_range("2020-01-01", periods=n, freq="s"))
    if kind == "float":
        return df.set_index(0.25 * np.arange(n) + 100.0)
    return df


def oracle_df(case):
    import pandas as pd
    from speckit.dsp import df_detrend, polynomial_detrend
    rng = np.random.default_rng(case["seed"])
    N = case["N"]
    df = pd.DataFrame({"a": rng.standard_normal(N) + 5, "i": rng.integers(-5, 5, N), "c": np.cumsum(rng.standard_normal(N)),
                       "s": ["x%d" % k for k in range(N)]})
    df = _reindex(df, case.get("index", "range"))
    before = df.copy(deep=True)
    out = df_detrend(df, columns=case["cols"], order=case["order"], inplace=case["inplace"], suffix=case["suffix"])
    viol = []
    if not df.equals(before):
        viol.append(V("df_detrend_modifies_input"))
    sel = case["cols"] if case["cols"] is not None else list(df.columns)
    for col in df.columns:
        numeric = df[col].dtype.kind in "biufc"
        if col in sel and numeric:
            exp = polynomial_detrend(before[col].values, order=case["order"])
            name = col if case["inplace"] else col + case["suffix"]
            if name not in out.columns or len(out) != len(before) or not out.index.equals(before.index) or \
                    not np.allclose(np.asarray(out[name], float), exp, rtol=1e-12, atol=0):
                viol.append(V("df_column_ne_polynomial_detrend", col=col, inplace=case["inplace"]))
            if not case["inplace"] and not out[col].equals(before[col]):
                viol.append(V("df_original_column_changed", col=col))
        else:
            if not out[col].equals(before[col]):
                viol.append(V("df_unselected_column_changed", col=col))
            if col + case["suffix"] in out.columns:
                viol.append(V("df_unselected_column_detrended", col=col))
    return Res(viol, case["cols"] is not None, ["df:inplace" if case["inplace"] else "df:suffix"])


# ------------------------------------------------------------------ (b) RMS integration
@st.composite
def rms_case(draw, tier):
    n = draw(st.integers(2, 400))
    return {"n": n, "seed": draw(st.integers(0, 2 ** 31 - 1)), "grid": draw(st.sampled_from(["log", "lin", "irregular", "dense_offset", "tiny", "red", "red"])),
            "edge": draw(st.sampled_from(["free", "free", "between", "hug_out", "hug_in"])),
            "u": sorted(draw(st.lists(st.one_of(st.floats(0.01, 0.99), st.floats(0.01, 0.99), st.floats(-0.2, 1.2)), min_size=3, max_size=3))), "snap": draw(st.booleans()),
            "fscale": draw(st.sampled_from([1.0, 1e-3, 1e4]))}


def _grid(case):
    rng = np.random.default_rng(case["seed"])
    n = case["n"]
    if case["grid"] == "log":
        f = np.logspace(-2, 2, n)
    elif case["grid"] == "lin":
        f = np.linspace(0.5, 100, n)
    elif case["grid"] == "dense_offset":
        f = 900.0 + 1e-3 * np.arange(n)                  # spacing/frequency ~ 1e-6 (periodogram of a long record)
    elif case["grid"] == "tiny":
        f = 1e-9 * (1.0 + np.arange(n))                  # nHz grid: spacing below any absolute tolerance
    elif case["grid"] == "red":
        f = np.logspace(-5, 0, n)
    else:
        f = np.cumsum(rng.uniform(0.01, 1.0, n))
    if case["grid"] not in ("dense_offset", "tiny", "red"):
        f = f * case["fscale"]
    asd = np.exp(rng.standard_normal(n)) * (1 + 10 / (1 + f / f[0]))
    if case["grid"] == "red":
        # steep red spectrum over five decades: the power below a band dwarfs the power inside it
        f = np.logspace(-5, 0, n)
        asd = f ** (-float(rng.choice([2.0, 3.0]))) * np.exp(0.1 * rng.standard_normal(n))
    return f, asd


def oracle_rms(case):
    from speckit.dsp import integral_rms
    f, asd = _grid(case)
    lo_all, hi_all = f[0], f[-1]
    pts = [lo_all + u * (hi_all - lo_all) for u in case["u"]]
    if case["snap"]:
        pts = [float(f[int(np.argmin(np.abs(f - p)))]) for p in pts]
    edge = case.get("edge", "free")
    if edge != "free" and len(f) >= 3:
        # band edges placed relative to the grid: halfway between neighbours, or one part in 1e9 of the local spacing
        # outside / inside a grid point (an inclusive crop must include exactly the points with lo <= f <= hi)
        k = [int(np.argmin(np.abs(f - p))) for p in pts]
        df = float(np.min(np.diff(f)))
        if edge == "between":
            pts = [float(0.5 * (f[min(i, len(f) - 2)] + f[min(i, len(f) - 2) + 1])) for i in k]
        elif edge == "hug_out":
            pts = [float(f[k[0]] + 1e-3 * df), float(f[k[1]]), float(f[k[2]] - 1e-3 * df)]
        else:
            pts = [float(f[k[0]] - 1e-3 * df), float(f[k[1]]), float(f[k[2]] + 1e-3 * df)]
    a, b, c = sorted(pts)
    viol = []

    def chk(band, tag):
        got = float(integral_rms(f, asd, band))
        lo, hi = (-np.inf, np.inf) if band is None else band
        eff_lo, eff_hi = max(f[0], lo), min(f[-1], hi)
        exp = refs.trap_rms(f, asd, (eff_lo, eff_hi)) if eff_lo < eff_hi else 0.0
        if not abs(got - exp) <= 1e-12 * max(exp, 1e-300) + 1e-300:
            viol.append(V("integral_rms_ne_trapezoid", band=None if band is None else list(band), got=got, expected=exp, tag=tag, n=len(f)))
        return got

    full = chk(None, "full")
    r_ab, r_bc, r_ac = chk((a, b), "ab"), chk((b, c), "bc"), chk((a, c), "ac")
    inb = (f >= a) & (f <= c)
    if a < b < c and bool(np.any(f == b)):
        # adjacent bands sharing the grid point b: additive in power
        if not abs(r_ab ** 2 + r_bc ** 2 - r_ac ** 2) <= 1e-10 * max(r_ac ** 2, 1e-300):
            viol.append(V("not_additive_in_power", a=a, b=b, c=c, ab=r_ab, bc=r_bc, ac=r_ac))
    if not (r_ab <= r_ac * (1 + 1e-12) and r_bc <= r_ac * (1 + 1e-12) and r_ac <= full * (1 + 1e-12)):
        viol.append(V("not_monotone_under_nesting", ab=r_ab, bc=r_bc, ac=r_ac, full=full))
    gaps = float(integral_rms(f, asd, (f[-1] * 2, f[-1] * 3)))
    if gaps != 0.0:
        viol.append(V("empty_band_not_zero", got=gaps))
    strict = a > f[0] and c < f[-1] and int(inb.sum()) >= 2
    return Res(viol, strict, ["rms:" + case["grid"], "rms:snap" if case["snap"] else "rms:free", "rms-edge:" + case.get("edge", "free")])


@st.composite
def getrms_case(draw, tier):
    N = draw(gens.loguniform_int(64, 4000))
    return {"N": N, "cfg": draw(gens.analysis_config(N, Jmax=100, Kmax=30)), "fs": draw(st.sampled_from([1.0, 100.0])),
            "rec": draw(gens.record(N, kinds=["noise", "ar1", "sines", "offset"])), "u": sorted([draw(st.floats(-0.1, 1.1)), draw(st.floats(-0.1, 1.1))]),
            "reverse": draw(st.booleans())}


def oracle_getrms(case):
    from speckit.dsp import integral_rms
    x = gens.materialise(case["rec"])
    res = gens.make_analyzer(x, case["fs"], case["cfg"]).compute()
    f, asd = np.asarray(res.f), np.asarray(res.asd)
    lo = f[0] + case["u"][0] * (f[-1] - f[0])
    hi = f[0] + case["u"][1] * (f[-1] - f[0])
    band = (hi, lo) if case["reverse"] else (lo, hi)
    viol = []
    got = res.get_rms(band)
    exp = float(integral_rms(f, asd, (lo, hi)))
    if not abs(got - exp) <= 1e-12 * max(exp, 1e-300) + 1e-300:
        viol.append(V("get_rms_ne_integral_rms", got=got, expected=exp, band=list(band)))
    if not abs(exp - refs.trap_rms(f, asd, (max(lo, f[0]), min(hi, f[-1])))) <= 1e-12 * max(exp, 1e-300) + 1e-300 and max(lo, f[0]) < min(hi, f[-1]):
        viol.append(V("integral_rms_ne_trapezoid", band=[lo, hi]))
    g0, e0 = res.get_rms(), float(integral_rms(f, asd, None))
    if not abs(g0 - e0) <= 1e-12 * max(e0, 1e-300) + 1e-300:
        viol.append(V("get_rms_full_band", got=g0, expected=e0))
    if not isinstance(got, float):
        viol.append(V("get_rms_not_float"))
    return Res(viol, True, ["getrms:reversed" if case["reverse"] else "getrms:ordered"])


# ------------------------------------------------------------------ (c) Parseval link
def parseval_cases(tier):
    seed = int(os.environ.get("VERIF_SEED", "1"))
    reps = 2 if tier == "quick" else 6
    for kind in ("white", "ar1", "lowpass"):
        for k in range(reps):
            yield {"kind": kind, "seed": seed * 50 + k, "N": [20000, 60000, 150000][k % 3], "Jdes": [200, 400, 800][k % 3],
                   "sched": ["ltf", "vectorized_ltf", "new_ltf"][k % 3]}


def oracle_parseval(case):
    from scipy.signal import lfilter
    from speckit import SpectrumAnalyzer
    rng = np.random.default_rng(case["seed"])
    x = rng.standard_normal(case["N"])
    if case["kind"] == "ar1":
        x = lfilter([1.0], [1.0, -0.6], x)
    elif case["kind"] == "lowpass":
        x = lfilter([0.2, 0.3, 0.3, 0.2], [1.0], x)
    x = x - x.mean()
    res = SpectrumAnalyzer(x, 10.0, Jdes=case["Jdes"], Kdes=50, scheduler=case["sched"]).compute()
    rms = res.get_rms()
    std = float(np.std(x))
    viol = []
    if not abs(rms / std - 1.0) <= 0.06:
        viol.append(V("full_band_rms_vs_time_domain", rms=rms, std=std, ratio=rms / std, kind=case["kind"], Jdes=case["Jdes"]))
    return Res(viol, True, ["parseval:" + case["kind"]], {"parseval_max_abs_ratio_minus_1": abs(rms / std - 1.0)})


PARTS = [
    Part("detrend", detrend_case, oracle_detrend, n_quick=400, n_thorough=5000),
    Part("df_detrend", df_case, oracle_df, n_quick=60, n_thorough=600),
    Part("integral_rms", rms_case, oracle_rms, n_quick=300, n_thorough=4000),
    Part("get_rms", getrms_case, oracle_getrms, n_quick=40, n_thorough=400),
    GridPart("parseval", parseval_cases, oracle_parseval),
]
QUOTAS = {"part:detrend": {"quick": 300, "thorough": 6000}, "part:integral_rms": {"quick": 200, "thorough": 4000},
          "detrend:N<=order": {"quick": 60, "thorough": 1000}, "part:parseval": {"quick": 6, "thorough": 18}}
