"""C03 - the frequency grid obeys the DFT and stepping constraints."""
import numpy as np

from .. import sched
from ..api import FuzzPart, GridPart, Part, Res

PROPERTY_ID = "C03"
RULE = (
    "Same generated and exhaustively enumerated scheduler configurations as C02, judged bin by bin: r==fs/L (<=2 ulp), "
    "f[j+1]==f[j]+r[j] (<=4 ulp), f[0]==bmin*fs/N (<=2 ulp), f strictly increasing and < fs/2, b==m==f/r==f*L/fs "
    "(<=4 ulp), b >= bmin/rho - f/(2 fs) (the rounding of L; rho = lookup-grid spacing for the vectorised scheduler, "
    "1 otherwise), and lpsd_plan(cfg) == ltf_plan(cfg, bmin=1, Lmin=1) array for array. Non-trivial: nf>=3 and at "
    "least one bin where the bmin bound, an Lmin/N clamp or the single-segment rule is active (recomputed from "
    "observables)."
)
ASSUMPTIONS = [
    "exactness is asserted to a few ulp (the relations are single floating-point operations of the stored values)",
    "the vectorised scheduler's lookup grid has at least 10*Jdes log-spaced points (a finer grid keeps the bound valid)",
]
USES_NUMBA = False
SHARDS_QUICK = 4


def oracle(cfg):
    name = cfg["sched"]
    N, fs = int(cfg["N"]), float(cfg["fs"])
    bmin, Lmin = sched.eff(name, cfg)
    plan = sched.run_plan(name, cfg)
    f = np.asarray(plan["f"], dtype=float)
    r = np.asarray(plan["r"], dtype=float)
    b = np.asarray(plan["b"], dtype=float)
    m = np.asarray(plan["m"], dtype=float)
    L = np.asarray(plan["L"], dtype=float)
    nf = len(f)
    viol = []

    def first(mask):
        return int(np.argmax(mask))

    with np.errstate(all="ignore"):
        if nf < 1 or not (len(r) == len(b) == len(m) == len(L) == nf):
            viol.append(sched.vio("lengths", name, cfg))
            return Res(viol, False, ["sched:" + name])
        if not np.all(np.isfinite(f)) or not np.all(np.isfinite(r)) or not np.all(np.isfinite(b)):
            viol.append(sched.vio("non_finite", name, cfg))
            return Res(viol, False, ["sched:" + name])
        # r*L = fs
        rr = fs / L
        bad = np.abs(r - rr) > 2 * np.spacing(np.abs(rr))
        if bad.any():
            j = first(bad)
            viol.append(sched.vio("r_ne_fs_over_L", name, cfg, j, r=r[j], L=L[j], fs_over_L=rr[j]))
        # stepping
        if nf > 1:
            nxt = f[:-1] + r[:-1]
            bad = np.abs(f[1:] - nxt) > 4 * np.spacing(np.abs(nxt))
            if bad.any():
                j = first(bad)
                viol.append(sched.vio("step_ne_r", name, cfg, j, f_j=f[j], r_j=r[j], f_next=f[j + 1]))
            if not np.all(np.diff(f) > 0):
                viol.append(sched.vio("f_not_increasing", name, cfg, first(~(np.diff(f) > 0))))
        f0 = bmin * fs / N
        if abs(f[0] - f0) > 2 * np.spacing(f0):
            viol.append(sched.vio("f0_ne_bmin_fs_over_N", name, cfg, 0, f0=f[0], expected=f0))
        if not np.all(f < fs / 2):
            viol.append(sched.vio("f_ge_nyquist", name, cfg, first(~(f < fs / 2))))
        # bin number
        bb = f / r
        bad = (np.abs(b - bb) > 4 * np.spacing(np.abs(bb))) | (b != m)
        if bad.any():
            j = first(bad)
            viol.append(sched.vio("b_ne_f_over_r", name, cfg, j, b=b[j], m=m[j], f_over_r=bb[j]))
        bb2 = f * L / fs
        bad = np.abs(b - bb2) > 8 * np.spacing(np.abs(bb2))
        if bad.any():
            j = first(bad)
            viol.append(sched.vio("b_ne_fL_over_fs", name, cfg, j, b=b[j], fL_over_fs=bb2[j]))
        # lower bound on the bin number
        rho = sched.vec_rho(cfg, name)
        lower = bmin / rho - 0.5 * f / fs - 1e-9 * bmin
        bad = b < lower
        if bad.any():
            j = first(bad)
            viol.append(sched.vio("b_below_bmin", name, cfg, j, b=b[j], lower=lower[j], rho=rho))
    # lpsd == ltf(bmin=1, Lmin=1)
    if name == "lpsd":
        c2 = dict(cfg, bmin=1.0, Lmin=1)
        other = sched.run_plan("ltf", c2)
        for key in ("f", "r", "b", "m", "L", "K", "navg", "O"):
            if not np.array_equal(np.asarray(plan[key]), np.asarray(other[key])):
                viol.append(sched.vio("lpsd_ne_ltf_bmin1_Lmin1", name, cfg, field=key))
                break
        else:
            if len(plan["D"]) != len(other["D"]) or any(
                    not np.array_equal(np.asarray(a), np.asarray(c)) for a, c in zip(plan["D"], other["D"])):
                viol.append(sched.vio("lpsd_ne_ltf_bmin1_Lmin1", name, cfg, field="D"))
    labels = sched.classify(name, cfg, plan)
    navg = np.asarray(plan["navg"])
    active = (("bmin-active" in labels) or ("Lmin-clamped" in labels) or bool(np.any(navg == 1))
              or bool(np.any(np.abs(b - bmin) < 0.5)))
    return Res(viol, nf >= 3 and active, labels)


PARTS = [
    Part("configs", sched.config, oracle, n_quick=500, n_thorough=6000),
    GridPart("small_grid", sched.grid_configs, oracle),
    # thorough tier only: coverage-guided campaign on the pure-Python schedulers (same oracle inside the target)
    FuzzPart("atheris", "harness.fuzz_sched", runs_quick=2000, runs_thorough=25000, oracle=oracle),
]
QUOTAS = {"bmin-active": {"quick": 300, "thorough": 5000}, "Lmin-clamped": {"quick": 100, "thorough": 3000},
          "sched:lpsd": {"quick": 100, "thorough": 2000}, "distinct_nontrivial": {"quick": 500, "thorough": 20000}}
