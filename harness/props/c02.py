"""C02 - every plan segments the record safely and completely."""
import numpy as np

from .. import sched
from ..api import FuzzPart, GridPart, Part, Res

PROPERTY_ID = "C02"
RULE = (
    "Admissible scheduler configurations (N>=8, fs>0, 0<=olap<1, 1<=bmin<N/2, 1<=Lmin<=N, Jdes>=1, Kdes>=1) x the "
    "four schedulers: Hypothesis-generated (log-uniform sizes, overlap values incl. 0.99/0.999 and the Kaiser "
    "defaults, clamping values of bmin/Lmin) plus an exhaustive small-N grid; each plan is judged by a validity "
    "predicate per clause (>=1 segment, navg==K==len(D), 0<=D<=N-L, D[0]=0, strictly increasing, last segment ends "
    "at N, max(1,Lmin)<=L<=N, K==1 => L==N) and by building the same plan through SpectrumAnalyzer.plan() (no "
    "exception, same D). Non-trivial: >=3 bins, >=2 distinct L and a bin with K>=2; classes degenerate "
    "((1-olap)*L<1 somewhere), Lmin-clamped, bmin-active, single-segment bins, N<64 are counted."
)
ASSUMPTIONS = [
    "the work of the iterative schedulers bounds N by 2e5*(1-olap) (quick) / 1e6*(1-olap) (thorough)",
    "lpsd is called with the generated bmin/Lmin and must ignore them (bmin=1, Lmin=1)",
]
USES_NUMBA = False
SHARDS_QUICK = 4


def oracle(cfg):
    name = cfg["sched"]
    N = int(cfg["N"])
    bmin, Lmin = sched.eff(name, cfg)
    plan = sched.run_plan(name, cfg)
    viol = []
    L = np.asarray(plan["L"])
    K = np.asarray(plan["K"])
    navg = np.asarray(plan["navg"])
    D = plan["D"]
    nf = len(plan["f"])
    if not (nf >= 1 and len(L) == nf and len(K) == nf and len(navg) == nf and len(D) == nf and plan["nf"] == nf):
        viol.append(sched.vio("lengths", name, cfg, nf=nf))
        return Res(viol, False, ["sched:" + name])
    for j in range(nf):
        d = np.asarray(D[j], dtype=np.int64)
        Lj = int(L[j])
        if d.size < 1:
            viol.append(sched.vio("no_segment", name, cfg, j))
            break
        if int(navg[j]) != d.size or int(K[j]) != d.size:
            viol.append(sched.vio("navg_ne_len_D", name, cfg, j, navg=int(navg[j]), K=int(K[j]), nD=int(d.size)))
            break
        if not (max(1, Lmin) <= Lj <= N):
            viol.append(sched.vio("L_range", name, cfg, j, L=Lj))
            break
        if d.min() < 0 or d.max() + Lj > N:
            viol.append(sched.vio("start_out_of_bounds", name, cfg, j, L=Lj, dmin=int(d.min()), dmax=int(d.max())))
            break
        if d[0] != 0:
            viol.append(sched.vio("first_start_not_0", name, cfg, j, L=Lj, d0=int(d[0])))
            break
        if d.size > 1 and not np.all(np.diff(d) > 0):
            viol.append(sched.vio("starts_not_strictly_increasing", name, cfg, j, L=Lj, K=int(d.size)))
            break
        if d.size > 1 and d[-1] + Lj != N:
            viol.append(sched.vio("last_segment_not_at_end", name, cfg, j, L=Lj, last=int(d[-1])))
            break
        if d.size == 1 and Lj != N:
            viol.append(sched.vio("K1_not_full_record", name, cfg, j, L=Lj))
            break
    # the analyzer must accept the configuration and return the same segmentation
    if not viol:
        try:
            ap = sched.analyzer_plan(name, cfg)
        except Exception as exc:  # noqa: BLE001 - "building the plan through the analyzer never fails"
            viol.append(sched.vio("analyzer_raises", name, cfg, exc=type(exc).__name__, msg=str(exc)[:160]))
        else:
            same = len(ap["D"]) == nf and all(
                np.array_equal(np.asarray(a, dtype=np.int64), np.asarray(b, dtype=np.int64)) for a, b in zip(ap["D"], D))
            if not same or not np.array_equal(np.asarray(ap["L"]), L.astype(np.int64)):
                viol.append(sched.vio("analyzer_plan_differs", name, cfg))
    labels = sched.classify(name, cfg, plan)
    nontrivial = nf >= 3 and len(set(L.tolist())) >= 2 and bool(np.any(navg >= 2))
    return Res(viol, nontrivial, labels)


PARTS = [
    Part("configs", sched.config, oracle, n_quick=500, n_thorough=6000),
    GridPart("small_grid", sched.grid_configs, oracle),
    # thorough tier only: coverage-guided campaign on the pure-Python schedulers (same oracle inside the target)
    FuzzPart("atheris", "harness.fuzz_sched", runs_quick=2000, runs_thorough=25000, oracle=oracle),
]
QUOTAS = {"degenerate": {"quick": 150, "thorough": 5000}, "Lmin-clamped": {"quick": 100, "thorough": 3000},
          "single-segment-bins": {"quick": 100, "thorough": 3000}, "N<64": {"quick": 100, "thorough": 3000},
          "distinct_nontrivial": {"quick": 500, "thorough": 20000}}
