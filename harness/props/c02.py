"""C02 - every plan segments the record safely and completely."""
import numpy as np
from hypothesis import strategies as st

from .. import sched
from ..api import FuzzPart, GridPart, Part, Res

PROPERTY_ID = "C02"
RULE = (
    "Admissible scheduler configurations (N>=8, fs>0, 0<=olap<1, 1<=bmin<N/2, 1<=Lmin<=N, Jdes>=1, Kdes>=1) x the "
    "four schedulers: Hypothesis-generated (log-uniform sizes, overlap values incl. 0.99/0.999 and the Kaiser "
    "defaults, clamping values of bmin/Lmin) plus an exhaustive small-N grid; each plan is judged by a validity "
    "predicate per clause (>=1 segment, navg==K==len(D), 0<=D<=N-L, D[0]=0, strictly increasing, last segment ends "
    "at N, max(1,Lmin)<=L<=N, K==1 => L==N) and by building the same plan through SpectrumAnalyzer.plan() (no "
    "exception, same D, K==navg==len(D); the analyzer is built with verbose on/off and with the scheduler named or passed as "
    "the library's function object) (no "
    "exception, same D). Non-trivial: >=3 bins, >=2 distinct L and a bin with K>=2; classes degenerate "
    "((1-olap)*L<1 somewhere), Lmin-clamped, bmin-active, single-segment bins, N<64 are counted."
)
ASSUMPTIONS = [
    "the work of the iterative schedulers bounds N by 2e5*(1-olap) (quick) / 1e6*(1-olap) (thorough)",
    "lpsd is called with the generated bmin/Lmin and must ignore them (bmin=1, Lmin=1)",
]
USES_NUMBA = False
SHARDS_QUICK = 4


def oracle(cfg):
    name = cfg["sched"]
    N = int(cfg["N"])
    bmin, Lmin = sched.eff(name, cfg)
    plan = sched.run_plan(name, cfg)
    viol = []
    L = np.asarray(plan["L"])
    K = np.asarray(plan["K"])
    navg = np.asarray(plan["navg"])
    D = plan["D"]
    nf = len(plan["f"])
    if not (nf >= 1 and len(L) == nf and len(K) == nf and len(navg) == nf and len(D) == nf and plan["nf"] == nf):
        viol.append(sched.vio("lengths", name, cfg, nf=nf))
        return Res(viol, False, ["sched:" + name])
    for j in range(nf):
        d = np.asarray(D[j], dtype=np.int64)
        Lj = int(L[j])
        if d.size < 1:
            viol.append(sched.vio("no_segment", name, cfg, j))
            break
        if int(navg[j]) != d.size or int(K[j]) != d.size:
            viol.append(sched.vio("navg_ne_len_D", name, cfg, j, navg=int(navg[j]), K=int(K[j]), nD=int(d.size)))
            break
        if not (max(1, Lmin) <= Lj <= N):
            viol.append(sched.vio("L_range", name, cfg, j, L=Lj))
            break
        if d.min() < 0 or d.max() + Lj > N:
            viol.append(sched.vio("start_out_of_bounds", name, cfg, j, L=Lj, dmin=int(d.min()), dmax=int(d.max())))
            break
        if d[0] != 0:
            viol.append(sched.vio("first_start_not_0", name, cfg, j, L=Lj, d0=int(d[0])))
            break
        if d.size > 1 and not np.all(np.diff(d) > 0):
            viol.append(sched.vio("starts_not_strictly_increasing", name, cfg, j, L=Lj, K=int(d.size)))
            break
        if d.size > 1 and d[-1] + Lj != N:
            viol.append(sched.vio("last_segment_not_at_end", name, cfg, j, L=Lj, last=int(d[-1])))
            break
        if d.size == 1 and Lj != N:
            viol.append(sched.vio("K1_not_full_record", name, cfg, j, L=Lj))
            break
    # the analyzer must accept the configuration and return the same segmentation
    if not viol:
        try:
            ap = sched.analyzer_plan(name, cfg)
        except Exception as exc:  # noqa: BLE001 - "building the plan through the analyzer never fails"
            viol.append(sched.vio("analyzer_raises", name, cfg, exc=type(exc).__name__, msg=str(exc)[:160]))
        else:
            same = len(ap["D"]) == nf and all(
                np.array_equal(np.asarray(a, dtype=np.int64), np.asarray(b, dtype=np.int64)) for a, b in zip(ap["D"], D))
            if not same or not np.array_equal(np.asarray(ap["L"]), L.astype(np.int64)):
                viol.append(sched.vio("analyzer_plan_differs", name, cfg))
            else:
                # the analyzer's plan states the same counts as the segmentation it carries
                for j in range(nf):
                    if not (int(ap["K"][j]) == int(ap["navg"][j]) == len(ap["D"][j])):
                        viol.append(sched.vio("analyzer_plan_count_differs_from_starts", name, cfg, j, K=int(ap["K"][j]),
                                              navg=int(ap["navg"][j]), nstarts=len(ap["D"][j]), verbose=bool(cfg.get("verbose", False))))
                        break
    labels = sched.classify(name, cfg, plan)
    nontrivial = nf >= 3 and len(set(L.tolist())) >= 2 and bool(np.any(navg >= 2))
    return Res(viol, nontrivial, labels)


@st.composite
def analyzer_case(draw, tier):
    """The analyzer's own defaults: overlap chosen from the window ('default'), every window spelling, psll, and the
    default scheduler/bmin/Lmin/Jdes/Kdes when not drawn."""
    from .. import gens
    N = draw(st.one_of(st.integers(8, 64), gens.loguniform_int(8, 5000)))
    c = {"N": N, "fs": draw(st.sampled_from([1.0, 2.0, 1000.0, 0.01])), "win": draw(st.sampled_from(gens.WIN_NAMES)),
         "psll": draw(st.one_of(st.sampled_from([200, 100, 60, 30]), st.floats(30, 250))),
         "sched": draw(st.sampled_from(sched.NAMES + ["<default>"])), "defaults": draw(st.booleans()),
         "verbose": draw(st.booleans()), "sched_as": draw(st.sampled_from(["name", "function"]))}
    if not c["defaults"]:
        c.update(bmin=draw(st.sampled_from([1.0, 1.5, 2.0])), Lmin=draw(st.sampled_from([1, 2, max(1, N // 3)])),
                 Jdes=draw(st.integers(1, 300)), Kdes=draw(st.integers(1, 200)))
        if not c["bmin"] < N / 2.0:
            c["bmin"] = 1.0
    return c


def oracle_analyzer(c):
    from speckit import SpectrumAnalyzer
    from .. import gens
    N = int(c["N"])
    kw = dict(win=gens.resolve_window(c["win"])[0], psll=c["psll"], verbose=bool(c.get("verbose", False)))
    if c["sched"] != "<default>":
        kw["scheduler"] = sched.sched_func(c["sched"]) if c.get("sched_as") == "function" else c["sched"]
    if not c["defaults"]:
        kw.update(bmin=c["bmin"], Lmin=c["Lmin"], Jdes=c["Jdes"], Kdes=c["Kdes"])
    an = SpectrumAnalyzer(np.zeros(N), c["fs"], **kw)
    olap = float(an.config["final_olap"])
    viol = []
    name = c["sched"] if c["sched"] != "<default>" else "vectorized_ltf"
    cfg = {"N": N, "fs": c["fs"], "olap": olap, "bmin": float(an.config["bmin"]), "Lmin": int(an.config["Lmin"]),
           "Jdes": int(an.config["Jdes"]), "Kdes": int(an.config["Kdes"]), "sched": name}
    if not (0.0 <= olap < 1.0):
        viol.append(sched.vio("default_overlap_out_of_range", name, cfg, win=c["win"], psll=c["psll"]))
        return Res(viol, False, [])
    plan = an.plan()            # must not raise for an admissible configuration
    Lmin_eff = 1 if name == "lpsd" else cfg["Lmin"]
    for j in range(len(plan["f"])):
        d = np.asarray(plan["D"][j])
        Lj = int(plan["L"][j])
        ok = (d.size >= 1 and int(plan["navg"][j]) == d.size == int(plan["K"][j]) and max(1, Lmin_eff) <= Lj <= N and d[0] == 0
              and d.min() >= 0 and d.max() + Lj <= N and (d.size == 1 or (np.all(np.diff(d) > 0) and d[-1] + Lj == N))
              and (d.size > 1 or Lj == N))
        if not ok:
            viol.append(sched.vio("analyzer_default_plan_invalid", name, cfg, j, L=Lj, K=int(d.size), win=c["win"], psll=c["psll"]))
            break
    return Res(viol, len(plan["f"]) >= 3, ["analyzer:win=" + c["win"], "analyzer:" + ("defaults" if c["defaults"] else "drawn")])


PARTS = [
    Part("configs", sched.config, oracle, n_quick=500, n_thorough=6000),
    Part("analyzer_defaults", analyzer_case, oracle_analyzer, n_quick=80, n_thorough=800),
    GridPart("small_grid", sched.grid_configs, oracle),
    # thorough tier only: coverage-guided campaign on the pure-Python schedulers (same oracle inside the target)
    FuzzPart("atheris", "harness.fuzz_sched", runs_quick=2000, runs_thorough=25000, oracle=oracle),
]
QUOTAS = {"degenerate": {"quick": 150, "thorough": 5000}, "Lmin-clamped": {"quick": 100, "thorough": 3000},
          "single-segment-bins": {"quick": 100, "thorough": 3000}, "N<64": {"quick": 100, "thorough": 3000},
          "distinct_nontrivial": {"quick": 500, "thorough": 20000}}
