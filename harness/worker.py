"""Worker process: runs the parts of one property for one (environment, shard).

usage: python -m harness.worker <PROP> <tier> <seed> <shard> <nshards> <envtag> <outfile> [--replay F]
Writes a JSON summary to <outfile>; exit code 0 / 1 (unlisted violation) / 2 (harness problem).
"""
import importlib
import json
import os
import random
import sys
import time
import traceback
import zlib

from . import findings
from .api import Res, V, case_hash, plain, speckit_frame as _speckit_frame
from .env import VERIF, speckit_root

MAX_SAMPLES = 6


class Violation(Exception):
    def __init__(self, desc):
        super().__init__(repr(desc))
        self.desc = desc


class Collector:
    def __init__(self, prop, tier, seed, shard, nshards, envtag):
        self.prop, self.tier, self.seed = prop, tier, seed
        self.shard, self.nshards, self.envtag = shard, nshards, envtag
        self.known = findings.load(prop)
        self.evaluations = 0
        self.nontrivial_hashes = set()
        self.classes = {}
        self.parts = {}
        self.samples = []
        self.known_hits = 0
        self.violations = []       # [{part, desc, case}]
        self.harness_errors = []
        self.info = {}
        self._srng = random.Random(seed * 7919 + shard)   # sampling for evidence only
        self._seen_nt = 0

    # -- bookkeeping for one oracle evaluation
    def note(self, part, case, res):
        self.evaluations += 1
        p = self.parts.setdefault(part, {"evaluations": 0, "nontrivial": 0, "distinct_nontrivial": 0})
        p["evaluations"] += 1
        for lab in res.labels:
            self.classes[lab] = self.classes.get(lab, 0) + 1
        if res.info:
            for k, v in res.info.items():
                # keep maxima of measured calibration values
                if isinstance(v, (int, float)) and v == v:
                    if k not in self.info or v > self.info[k]:
                        self.info[k] = v
        if res.nontrivial:
            p["nontrivial"] += 1
            h = part + ":" + case_hash(case)
            if h not in self.nontrivial_hashes:
                self.nontrivial_hashes.add(h)
                p["distinct_nontrivial"] += 1
                self._seen_nt += 1
                entry = {"part": part, "case": _shorten(plain(case)), "labels": res.labels}
                if len(self.samples) < MAX_SAMPLES:
                    self.samples.append(entry)
                else:  # reservoir sampling, deterministic in the seed
                    j = self._srng.randrange(self._seen_nt)
                    if j < MAX_SAMPLES - 1:
                        self.samples[1 + j] = entry   # keep the first one
        unlisted, matched = findings.split(self.known, res.viol)
        self.known_hits += matched
        return unlisted

    def dump(self, path, wall):
        out = {
            "prop": self.prop, "tier": self.tier, "seed": self.seed, "shard": self.shard,
            "nshards": self.nshards, "env": self.envtag,
            "evaluations": self.evaluations,
            "nontrivial_hashes": sorted(self.nontrivial_hashes),
            "classes": self.classes, "parts": self.parts, "samples": self.samples,
            "known_hits": {k.sig: k.hits for k in self.known},
            "violations": self.violations, "harness_errors": self.harness_errors,
            "info": self.info, "wall_s": wall,
        }
        tmp = path + ".tmp"
        with open(tmp, "w") as fh:
            json.dump(out, fh, allow_nan=True)
        os.replace(tmp, path)


def _shorten(v, maxlen=24):
    """Abbreviate long numeric lists in *evidence samples* (replay files keep everything)."""
    if isinstance(v, list):
        if len(v) > maxlen and all(isinstance(x, (int, float)) for x in v):
            return {"len": len(v), "head": v[:8], "tail": v[-4:]}
        return [_shorten(x, maxlen) for x in v]
    if isinstance(v, dict):
        return {k: _shorten(x, maxlen) for k, x in v.items()}
    return v


def _part_seed(seed, shard, name):
    return (seed * 1009 + shard) * 65537 + (zlib.crc32(name.encode()) & 0xFFFF)


def write_replay(prop, part, case, desc):
    os.makedirs(os.path.join(VERIF, "replay"), exist_ok=True)
    rel = os.path.join("replay", "%s-%s-%s.json" % (prop, part, case_hash(case)))
    with open(os.path.join(VERIF, rel), "w") as fh:
        json.dump({"property": prop, "part": part, "violation": plain(desc), "case": plain(case)},
                  fh, allow_nan=True, indent=1)
    return rel


def guarded(oracle, case):
    """Run an oracle.  An exception escaping from inside the package under test is a violation
    (`clause=raises`): every generated case is an admissible input, and the oracles catch the
    exceptions the properties allow themselves.  Any other exception is a harness error."""
    try:
        return oracle(case), None
    except Violation:
        raise
    except BaseException as exc:  # noqa: BLE001  (SystemExit from a scheduler included)
        if isinstance(exc, KeyboardInterrupt):
            raise
        where = _speckit_frame(exc.__traceback__)
        if where is not None:
            return Res([V("raises", exc=type(exc).__name__, msg=str(exc)[:200], where=where)],
                       False, ["raised:" + type(exc).__name__]), None
        return None, "".join(traceback.format_exception(type(exc), exc, exc.__traceback__))[-3000:]


class HarnessError(Exception):
    pass


def run_generated(col, part, n):
    from hypothesis import HealthCheck, Phase, given, seed, settings
    phases = [Phase.generate, Phase.shrink] if part.shrink else [Phase.generate]
    last = {}

    @seed(_part_seed(col.seed, col.shard, part.name))
    @settings(max_examples=n, database=None, deadline=None, derandomize=False,
              report_multiple_bugs=False, suppress_health_check=list(HealthCheck), phases=phases)
    @given(part.strategy(col.tier))
    def test(case):
        res, herr = guarded(part.oracle, case)
        if herr:
            raise HarnessError(herr)
        unlisted = col.note(part.name, case, res)
        if unlisted:
            last["case"], last["desc"] = case, unlisted[0]
            raise Violation(unlisted[0])

    try:
        test()
    except Violation:
        rel = write_replay(col.prop, part.name, last["case"], last["desc"])
        col.violations.append({"part": part.name, "desc": plain(last["desc"]), "replay": rel})
    except HarnessError as exc:
        col.harness_errors.append({"part": part.name, "error": str(exc)})
    except Exception as exc:  # hypothesis internal problems (Unsatisfiable, Flaky, ...)
        col.harness_errors.append({"part": part.name, "error": "".join(
            traceback.format_exception(type(exc), exc, exc.__traceback__))[-3000:]})


def run_grid(col, part):
    if col.tier not in part.tiers:
        return
    for i, case in enumerate(part.cases(col.tier)):
        if i % col.nshards != col.shard:
            continue
        res, herr = guarded(part.oracle, case)
        if herr:
            col.harness_errors.append({"part": part.name, "error": herr})
            return
        unlisted = col.note(part.name, case, res)
        if unlisted:
            rel = write_replay(col.prop, part.name, case, unlisted[0])
            col.violations.append({"part": part.name, "desc": plain(unlisted[0]), "replay": rel})
            return  # first failure of an enumeration (it is already minimal-ish: grids go small->large)


def run_machine(col, part, n):
    from hypothesis import HealthCheck, Phase, seed, settings
    from hypothesis.stateful import run_state_machine_as_test
    from .machine import ViolationFound
    phases = [Phase.generate, Phase.shrink] if part.shrink else [Phase.generate]
    last = {}
    M = part.machine

    def sink(trace, res, final):
        if final:
            unlisted = col.note(part.name, trace, res)
        else:
            unlisted, _ = findings.split(col.known, res.viol)
        if unlisted:
            last["case"], last["desc"] = [list(t) for t in trace], unlisted[0]
        return unlisted

    M.sink = staticmethod(sink)
    try:
        run_state_machine_as_test(
            seed(_part_seed(col.seed, col.shard, part.name))(M),
            settings=settings(max_examples=n, stateful_step_count=part.steps, database=None,
                              deadline=None, derandomize=False, report_multiple_bugs=False,
                              suppress_health_check=list(HealthCheck), phases=phases))
    except ViolationFound:
        rel = write_replay(col.prop, part.name, last["case"], last["desc"])
        col.violations.append({"part": part.name, "desc": plain(last["desc"]), "replay": rel})
    except BaseException as exc:  # noqa: BLE001
        if isinstance(exc, KeyboardInterrupt):
            raise
        col.harness_errors.append({"part": part.name, "error": "".join(
            traceback.format_exception(type(exc), exc, exc.__traceback__))[-3000:]})
    finally:
        M.sink = None


def run_fuzz(col, part):
    """Run an atheris campaign in a child process and fold its counters into the collector."""
    import shutil
    import subprocess
    from . import env as E
    if col.tier not in part.tiers:
        return
    if not E.ensure_deps(modules=("atheris",)):
        col.harness_errors.append({"part": part.name, "error": "atheris could not be installed from the wheelhouse"})
        return
    runs = part.runs_quick if col.tier == "quick" else part.runs_thorough
    runs = max(1, int(runs * float(os.environ.get("VERIF_SCALE", "1"))))
    out = os.path.join(E.CACHE, "fuzz-%s-%s-%d-%d" % (col.prop, part.name, os.getpid(), col.shard))
    shutil.rmtree(out, ignore_errors=True)
    corpus = "seeded" if col.shard % 2 else "empty"          # both an empty and a seeded corpus are tried
    cmd = [sys.executable, "-m", part.module, col.prop, out, str(runs), str(_part_seed(col.seed, col.shard, part.name) % (2 ** 31)), corpus]
    r = subprocess.run(cmd, cwd=VERIF, capture_output=True, text=True)
    stats_path = os.path.join(out, "stats.json")
    try:
        if not os.path.exists(stats_path):
            col.harness_errors.append({"part": part.name, "error": "fuzzer produced no stats (rc=%d)\n%s" % (r.returncode, (r.stdout + r.stderr)[-2000:])})
            return
        with open(stats_path) as fh:
            stt = json.load(fh)
        col.evaluations += stt["evaluations"]
        p = col.parts.setdefault(part.name, {"evaluations": 0, "nontrivial": 0, "distinct_nontrivial": 0})
        p["evaluations"] += stt["evaluations"]
        p["nontrivial"] += stt["nontrivial"]
        for h in stt["hashes"]:
            hh = part.name + ":" + h.split(":", 1)[1]
            if hh not in col.nontrivial_hashes:
                col.nontrivial_hashes.add(hh)
                p["distinct_nontrivial"] += 1
        for k, v in stt["classes"].items():
            col.classes["fuzz:" + k] = col.classes.get("fuzz:" + k, 0) + v
        col.classes["fuzz-corpus:" + corpus] = col.classes.get("fuzz-corpus:" + corpus, 0) + 1
        col.known_hits += stt.get("known_hits", 0)
        if stt.get("violation"):
            v = stt["violation"]
            rel = write_replay(col.prop, part.name, v["case"], v["desc"])
            col.violations.append({"part": part.name, "desc": v["desc"], "replay": rel})
        elif r.returncode not in (0, 77):
            col.harness_errors.append({"part": part.name, "error": "fuzzer rc=%d\n%s" % (r.returncode, (r.stdout + r.stderr)[-2000:])})
    finally:
        shutil.rmtree(out, ignore_errors=True)


def run_regressions(col, mod, envtag):
    """Replay the committed minimal cases of earlier failures (regress/<ID>/*.json) first."""
    d = os.path.join(VERIF, "regress", col.prop)
    if not os.path.isdir(d):
        return
    byname = {p.name: p for p in mod.PARTS}
    for name in sorted(os.listdir(d)):
        if not name.endswith(".json"):
            continue
        with open(os.path.join(d, name)) as fh:
            rp = json.load(fh)
        part = byname.get(rp.get("part"))
        if part is None or part.env != envtag:
            continue
        res, herr = guarded(part.oracle, rp["case"])
        if herr:
            col.harness_errors.append({"part": part.name, "error": herr})
            continue
        res.labels = list(res.labels) + ["regression-replayed"]
        unlisted = col.note(part.name, rp["case"], res)
        if unlisted:
            rel = os.path.join("regress", col.prop, name)
            col.violations.append({"part": part.name, "desc": plain(unlisted[0]), "replay": rel})


def load_module(prop):
    return importlib.import_module("harness.props." + prop.lower())


def assert_tree():
    import speckit
    root = speckit_root()
    got = os.path.abspath(speckit.__file__)
    if not got.startswith(os.path.join(root, "speckit") + os.sep):
        raise RuntimeError("speckit imported from %s, expected under %s" % (got, root))


def main(argv):
    prop, tier, seed, shard, nshards, envtag, outfile = argv[:7]
    seed, shard, nshards = int(seed), int(shard), int(nshards)
    t0 = time.time()
    col = Collector(prop, tier, seed, shard, nshards, envtag)
    try:
        assert_tree()
        mod = load_module(prop)
        if "--replay" in argv:
            path = argv[argv.index("--replay") + 1]
            with open(path) as fh:
                rp = json.load(fh)
            part = [p for p in mod.PARTS if p.name == rp["part"]][0]
            res, herr = guarded(part.oracle, rp["case"])
            if herr:
                col.harness_errors.append({"part": part.name, "error": herr})
            else:
                unlisted = col.note(part.name, rp["case"], res)
                for d in unlisted:
                    col.violations.append({"part": part.name, "desc": plain(d), "replay": path})
        else:
            only = os.environ.get("VERIF_PARTS")
            if shard == 0:
                run_regressions(col, mod, envtag)
            for part in mod.PARTS:
                if part.env != envtag:
                    continue
                if only and part.name not in only.split(","):
                    continue
                ps = part.shards_quick if tier == "quick" else part.shards_thorough
                if ps is not None and shard >= ps:
                    continue
                if part.kind == "fuzz":
                    run_fuzz(col, part)
                elif part.kind == "grid":
                    run_grid(col, part)
                else:
                    n = part.n_quick if tier == "quick" else part.n_thorough
                    scale = float(os.environ.get("VERIF_SCALE", "1"))
                    n = max(1, int(n * scale))
                    if part.kind == "machine":
                        run_machine(col, part, n)
                    else:
                        run_generated(col, part, n)
    except BaseException as exc:  # noqa: BLE001
        col.harness_errors.append({"part": "<setup>", "error": "".join(
            traceback.format_exception(type(exc), exc, exc.__traceback__))[-3000:]})
    col.dump(outfile, time.time() - t0)
    if col.harness_errors:
        return 2
    return 1 if col.violations else 0


if __name__ == "__main__":
    sys.exit(main(sys.argv[1:]))
