"""Small vocabulary shared by the property modules and the worker.

A property module `harness.props.cNN` exposes

    PROPERTY_ID : str
    RULE        : str   how cases are generated and what makes one non-trivial
    ASSUMPTIONS : list[str]
    PARTS       : list[Part]       (generated parts, exhaustive grids, state machines)
    optional  QUOTAS : dict[label -> minimum count over the whole run per tier]

Every part has an *oracle* `oracle(case) -> Res`, where `case` is a JSON-serialisable value that
fully determines the execution (bulk noise is stored as (kind, seed, parameters)), so that a
failing case can be written to a replay file and re-executed without Hypothesis.
"""
import hashlib
import json
import math
import os
import traceback


class Res:
    """Outcome of one oracle evaluation."""

    __slots__ = ("viol", "nontrivial", "labels", "info")

    def __init__(self, viol=None, nontrivial=False, labels=(), info=None):
        self.viol = list(viol or [])      # list of violation descriptors (dicts with 'clause')
        self.nontrivial = bool(nontrivial)
        self.labels = list(labels)
        self.info = info                  # optional measured values (e.g. worst error/budget)


def V(clause, **kw):
    """A violation descriptor: which clause of the property failed, and where."""
    d = {"clause": clause}
    for k, v in kw.items():
        d[k] = _plain(v)
    return d


def _plain(v):
    """Convert numpy scalars/arrays into JSON-able python values."""
    try:
        import numpy as np
    except Exception:  # pragma: no cover
        np = None
    if np is not None:
        if isinstance(v, np.ndarray):
            return [_plain(x) for x in v.tolist()]
        if isinstance(v, np.generic):
            return _plain(v.item())
    if isinstance(v, complex):
        return {"re": v.real, "im": v.imag}
    if isinstance(v, (list, tuple)):
        return [_plain(x) for x in v]
    if isinstance(v, dict):
        return {str(k): _plain(x) for k, x in v.items()}
    if isinstance(v, (str, int, float, bool)) or v is None:
        return v
    return repr(v)


def plain(v):
    return _plain(v)


def case_hash(case):
    s = json.dumps(_plain(case), sort_keys=True, separators=(",", ":"), allow_nan=True)
    return hashlib.sha1(s.encode()).hexdigest()[:16]


class Part:
    """A generated part: Hypothesis strategy + oracle.

    strategy(tier) -> SearchStrategy producing JSON-able cases
    n_quick / n_thorough: examples *per shard*
    env: 'default' or 'cudasim' (child process with NUMBA_ENABLE_CUDASIM=1)
    """

    kind = "generated"

    def __init__(self, name, strategy, oracle, n_quick, n_thorough, env="default",
                 shrink=True, shards_quick=None, shards_thorough=None):
        self.name = name
        self.strategy = strategy
        self.oracle = oracle
        self.n_quick = n_quick
        self.n_thorough = n_thorough
        self.env = env
        self.shrink = shrink
        self.shards_quick = shards_quick
        self.shards_thorough = shards_thorough


class GridPart:
    """An exhaustively enumerated finite scope.  cases(tier) -> iterable of JSON-able cases.
    The enumeration is split over the shards by index (i % nshards == shard)."""

    kind = "grid"

    def __init__(self, name, cases, oracle, env="default", tiers=("quick", "thorough"),
                 shards_quick=None, shards_thorough=None):
        self.name = name
        self.cases = cases
        self.oracle = oracle
        self.env = env
        self.tiers = tiers
        self.shards_quick = shards_quick
        self.shards_thorough = shards_thorough


class FuzzPart:
    """Coverage-guided fuzzing campaign (atheris/libFuzzer) with the property's oracle inside the target.
    Runs `python -m <module> <PROP> <outdir> <runs> <seed> <corpus>` in a child process per shard."""

    kind = "fuzz"

    def __init__(self, name, module, runs_quick, runs_thorough, env="default", tiers=("thorough",), oracle=None,
                 shards_quick=None, shards_thorough=None):
        self.name = name
        self.module = module
        self.runs_quick = runs_quick
        self.runs_thorough = runs_thorough
        self.env = env
        self.tiers = tiers
        self.oracle = oracle            # used for --replay of a saved violation
        self.shards_quick = shards_quick
        self.shards_thorough = shards_thorough


class MachinePart:
    """A Hypothesis RuleBasedStateMachine over a call history.

    machine: subclass of harness.machine.TracedMachine.  A failing run is replayed from the
    recorded trace [(rule, kwargs), ...] without Hypothesis.
    """

    kind = "machine"

    def __init__(self, name, machine, n_quick, n_thorough, steps=30, env="default", shrink=True,
                 shards_quick=None, shards_thorough=None):
        self.name = name
        self.machine = machine
        self.n_quick = n_quick
        self.n_thorough = n_thorough
        self.steps = steps
        self.env = env
        self.shrink = shrink
        self.shards_quick = shards_quick
        self.shards_thorough = shards_thorough

    # replay: execute a stored trace
    def oracle(self, case):
        return self.machine.replay(case)


def isfinite(x):
    try:
        return math.isfinite(x)
    except Exception:
        return False


def speckit_frame(tb):
    """Innermost frame of a traceback that lies inside the package under test, or None."""
    from .env import speckit_root
    root = os.path.join(speckit_root(), "speckit") + os.sep
    hit = None
    for fs in traceback.extract_tb(tb):
        if os.path.abspath(fs.filename).startswith(root):
            hit = "%s:%d:%s" % (os.path.relpath(fs.filename, speckit_root()), fs.lineno, fs.name)
    return hit


PLOT_KINDS = ["asd", "psd", "coh", "csd", "cf", "bode", None]


def plot_quietly(res, which, errors=True, sigma=1, **kw):
    """Draw a result (Agg backend, figure closed at once).  Whether the drawing itself succeeds is not a claim of any
    property - refusals ('not available for this analysis type', no finite data, log axes of non-positive data) are
    swallowed; what the checks look at is the result object afterwards."""
    import warnings
    import matplotlib.pyplot as plt
    ok = True
    with warnings.catch_warnings():
        warnings.simplefilter("ignore")
        try:
            res.plot(which=which, errors=errors, sigma=sigma, **kw)
        except Exception:  # noqa: BLE001
            ok = False
        finally:
            plt.close("all")
    return ok
