#!/usr/bin/env python3
"""Sensitivity (mutation) self-test -- a development tool, not a registered property check.

For every mutant in catalogue.py: copy /repo/speckit to a scratch directory outside /repo and
/verif, apply the single textual change, run `./check <ID> --tier quick` with SPECKIT_ROOT
pointing at the copy, expect exit 1 and a VIOLATION line, delete the copy.

usage: selftest/run.py [--only C01,C05] [--ids m1,m2] [--jobs 4] [--pytest]
Results: selftest/results.json (killed / survived per mutant and property).
"""
import argparse
import json
import os
import shutil
import subprocess
import sys
import tempfile
import time
from concurrent.futures import ThreadPoolExecutor

HERE = os.path.dirname(os.path.abspath(__file__))
VERIF = os.path.dirname(HERE)
sys.path.insert(0, HERE)
from catalogue import MUTANTS  # noqa: E402


def apply(root, m):
    path = os.path.join(root, m["file"])
    with open(path) as fh:
        src = fh.read()
    cnt = src.count(m["old"])
    want = m.get("count", 1)
    if cnt < 1 or (want != "all" and cnt != want):
        raise RuntimeError("mutant %s: pattern occurs %d times in %s (expected %s)" % (m["id"], cnt, m["file"], want))
    src = src.replace(m["old"], m["new"])
    for old2, new2 in m.get("also", []):      # companion edits in the same file (two cooperating sites)
        if src.count(old2) != 1:
            raise RuntimeError("mutant %s: companion pattern occurs %d times" % (m["id"], src.count(old2)))
        src = src.replace(old2, new2)
    with open(path, "w") as fh:
        fh.write(src)


def run_one(m, props, with_pytest):
    scratch = tempfile.mkdtemp(prefix="speckit-mut-%s-" % m["id"], dir="/tmp")
    out = {"id": m["id"], "file": m["file"], "note": m.get("note", ""), "results": {}}
    try:
        # base = the committed tree (git archive HEAD), so that a concurrently patched working tree cannot leak in
        ar = subprocess.run("git -C /repo archive HEAD speckit tests | tar -x -C %s" % scratch, shell=True, capture_output=True, text=True)
        if ar.returncode != 0:
            out["error"] = "git archive failed: " + ar.stderr[-200:]
            return out
        try:
            apply(scratch, m)
        except RuntimeError as exc:
            out["error"] = str(exc)
            return out
        chk = subprocess.run([sys.executable, "-c", "import ast,sys;ast.parse(open(sys.argv[1]).read())",
                              os.path.join(scratch, m["file"])], capture_output=True, text=True)
        if chk.returncode != 0:
            out["error"] = "mutant does not parse"
            return out
        if with_pytest and m.get("pytest"):
            env = dict(os.environ, PYTHONPATH=scratch)
            r = subprocess.run(["/venv/bin/python", "-m", "pytest", "-q", "-x", "-p", "no:cacheprovider"] + m["pytest"],
                               cwd=scratch, env=env, capture_output=True, text=True)
            out["existing_tests"] = "fail" if r.returncode != 0 else "pass"
        for prop in props:
            env = dict(os.environ, SPECKIT_ROOT=scratch)
            env.setdefault("VERIF_SEED", "1")
            t0 = time.time()
            r = subprocess.run([os.path.join(VERIF, "check"), prop, "--tier", "quick"], cwd=VERIF, env=env,
                               capture_output=True, text=True)
            lines = [l for l in r.stdout.splitlines() if l.startswith("VIOLATION")]
            detail = [l for l in r.stdout.splitlines() if l.startswith("  part=")]
            out["results"][prop] = {"exit": r.returncode, "killed": r.returncode == 1 and bool(lines),
                                    "wall_s": round(time.time() - t0, 1),
                                    "first": (detail[0][:300] if detail else r.stdout[-300:])}
    finally:
        shutil.rmtree(scratch, ignore_errors=True)
    return out


def main():
    ap = argparse.ArgumentParser()
    ap.add_argument("--only", default=None)
    ap.add_argument("--ids", default=None)
    ap.add_argument("--jobs", type=int, default=4)
    ap.add_argument("--pytest", action="store_true")
    args = ap.parse_args()
    only = set(args.only.split(",")) if args.only else None
    ids = set(args.ids.split(",")) if args.ids else None
    todo = []
    for m in MUTANTS:
        if ids and m["id"] not in ids:
            continue
        props = [p for p in m["props"] if not only or p in only]
        if props:
            todo.append((m, props))
    with ThreadPoolExecutor(max_workers=args.jobs) as ex:
        results = list(ex.map(lambda t: run_one(t[0], t[1], args.pytest), todo))
    path = os.path.join(HERE, "results.json")
    old = {}
    if os.path.exists(path):
        with open(path) as fh:
            old = {r["id"]: r for r in json.load(fh)}
    for r in results:
        if r["id"] in old and "results" in old[r["id"]]:
            merged = dict(old[r["id"]]["results"])
            merged.update(r["results"])
            r["results"] = merged
            if "existing_tests" not in r and "existing_tests" in old[r["id"]]:
                r["existing_tests"] = old[r["id"]]["existing_tests"]
        old[r["id"]] = r
    with open(path, "w") as fh:
        json.dump([old[k] for k in sorted(old)], fh, indent=1)
    killed = survived = 0
    for r in results:
        for prop, v in r.get("results", {}).items():
            tag = "KILLED  " if v["killed"] else "SURVIVED"
            killed += v["killed"]
            survived += not v["killed"]
            print("%s %-28s %s exit=%d %5.1fs %s" % (tag, r["id"], prop, v["exit"], v["wall_s"], v["first"][:160]))
        if "error" in r:
            print("ERROR    %s %s" % (r["id"], r["error"]))
    print("killed %d, survived %d" % (killed, survived))


if __name__ == "__main__":
    main()
