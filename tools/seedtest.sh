#!/bin/bash
# usage: tools/seedtest.sh <worktree> <name> <CHECK> [<CHECK>...]
#  1. confirms in the scratch worktree: demo.py FAILS with the change, PASSES without; existing tests pass with the change
#  2. applies seeded/patch.diff to /repo, runs the given checks (quick tier), reverts /repo
#  3. stores patch.diff, demo.py, meta.json under /verif/seeded/<name>/ with the outcome appended to meta.json
wt=$1; name=$2; shift 2
V=/verif
set -u
export NUMBA_CACHE_DIR=$wt/.nbcache PYTHONPATH=$wt
cd $wt || exit 2
[ -f seeded/patch.diff ] || { echo "no patch"; exit 2; }
git diff --quiet -- speckit && { echo "worktree has no change applied"; exit 2; }
/venv/bin/python seeded/demo.py > /tmp/seed_demo_with.log 2>&1; d_with=$?
# (git stash is shared between worktrees of one repository: revert/re-apply the patch instead)
git diff -- speckit > /tmp/seed_current.diff
git apply -R /tmp/seed_current.diff; /venv/bin/python seeded/demo.py > /tmp/seed_demo_without.log 2>&1; d_without=$?; git apply /tmp/seed_current.diff
echo "demo: with change rc=$d_with ; without rc=$d_without"
if [ "${SKIP_TESTS:-0}" = "1" ]; then t_rc=skipped; tsum=skipped; else
/venv/bin/python -m pytest -q -p no:cacheprovider --timeout=900 tests > /tmp/seed_tests.log 2>&1; t_rc=$?
tsum=$(tail -1 /tmp/seed_tests.log); fi
echo "existing tests with change: rc=$t_rc ($tsum)"
unset PYTHONPATH NUMBA_CACHE_DIR
cd $V
git -C /repo diff --quiet || { echo "/repo not clean"; exit 2; }
git -C /repo apply $wt/seeded/patch.diff || { echo "patch does not apply to /repo"; exit 2; }
res=""
export VERIF_EVIDENCE_DIR=$V/.cache/evidence-seedtest   # never overwrite evidence/ with runs against a broken tree
for c in "$@"; do
  out=$(./check $c --tier quick 2>&1); rc=$?
  first=$(echo "$out" | grep -A1 "^VIOLATION" | head -2 | tr '\n' ' ' | cut -c1-400)
  echo "check $c rc=$rc $first"
  res="$res{\"check\":\"$c\",\"exit\":$rc,\"first\":$(python3 -c 'import json,sys;print(json.dumps(sys.argv[1]))' "$first")},"
done
git -C /repo checkout -- . ; git -C /repo diff --quiet && echo "/repo restored"
mkdir -p $V/seeded/$name
cp $wt/seeded/patch.diff $wt/seeded/demo.py $V/seeded/$name/
python3 - "$wt/seeded/meta.json" "$V/seeded/$name/meta.json" "$d_with" "$d_without" "$t_rc" "$tsum" "[${res%,}]" <<'P'
import json,sys
src,dst,dw,dwo,trc,tsum,res=sys.argv[1:8]
try: m=json.load(open(src))
except Exception as e: m={"note":"agent meta.json unreadable: %s"%e}
m["confirmed_by_verifier"]={"demo_exit_with_change":int(dw),"demo_exit_without_change":int(dwo),"existing_tests_with_change":{"rc":trc,"summary":tsum},
  "checks_run_against_change":json.loads(res)}
json.dump(m,open(dst,"w"),indent=1)
P
