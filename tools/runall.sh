#!/bin/bash
# usage: tools/runall.sh [tier] [seed...]   -- runs every registered check, prints one line per check
cd "$(dirname "$(readlink -f "$0")")/.." || exit 2
tier=${1:-quick}; shift
seeds=${@:-1}
rc_all=0
for seed in $seeds; do
  for id in $(python3 -c "import json;print(' '.join(c['property_id'] for c in json.load(open('MANIFEST.json'))['checks']))"); do
    out=$(VERIF_SEED=$seed ./check $id --tier $tier 2>&1); rc=$?
    echo "seed=$seed rc=$rc $(echo "$out" | grep -E "^C[0-9]+ tier=" | tail -1)"
    if [ $rc -ne 0 ]; then rc_all=1; echo "$out" | grep -E "VIOLATION|HARNESS-ERROR|^  part=" | head -6; fi
  done
done
exit $rc_all
