#!/usr/bin/env python3
"""Regenerates MANIFEST.json from the table below (kept as a script so that the manifest is
always schema-valid and consistent while checks are added)."""
import json
import os

HERE = os.path.dirname(os.path.dirname(os.path.abspath(__file__)))

# id -> (technique, level text, level note, design ref)
CHECKS = {}


def add(pid, technique, text, note, ref):
    CHECKS[pid] = (technique, text, note, ref)


add("C01", "property-based differential testing (Hypothesis) against a direct-DFT reference model; 3 backends (CUDA via simulator)",
    "Generated kernel-level and API-level cases over records x starts x windows x frequencies x orders x backends are "
    "compared with a direct evaluation of the windowed DFT within a stated rounding budget and across backends; "
    "every backend x order x mode cell must reach a quota of cases or the check exits 2; the backends are also called repeatedly on shared and on overlapping-view records (inputs must stay unchanged), the NumPy block loop and CUDA multi-block launches are exercised, and records with nearly identical segments probe the scatter statistic with a budget proportional to the scatter. Bounded exploration, no absence claim.",
    "Trusts NumPy complex/longdouble arithmetic for the reference and Numba's CUDA simulator as an executor of the kernel source (no GPU in the sandbox).",
    "DESIGN.md section 6 C01")
add("C02", "property-based testing with a validity-predicate oracle + exhaustive small-scope enumeration (+ coverage-guided fuzzing in the thorough tier)",
    "Every clause of the property is an executable predicate over the plan returned by each of the four schedulers and by "
    "SpectrumAnalyzer.plan(); configurations are generated over the whole admissible domain with class quotas "
    "(degenerate (1-olap)L<1, clamped, single-segment), rational overlaps that produce exact rounding ties, the analyzer's own default overlap/window configurations, and a small-N grid enumerated exhaustively; the thorough tier adds an atheris (libFuzzer) campaign with the same oracle inside the target.",
    "Bounded by N<=2e4 (quick) / 2e5 (thorough); the predicates are typed from the property text, not from the scheduler code.",
    "DESIGN.md section 6 C02")

add("C03", "property-based testing with exact (ulp-level) relational oracles + exhaustive small-scope enumeration + differential lpsd vs ltf",
    "The DFT constraint, the stepping rule, the start frequency, the bin-number identities and the bmin lower bound are "
    "checked bin by bin to a few ulp on generated and exhaustively enumerated configurations; lpsd is compared array-for-array with ltf(bmin=1,Lmin=1).",
    "Bounded exploration; the b>=bmin bound is derived from L=round(fs*bmin/f) (and the lookup-grid spacing for the vectorised scheduler).",
    "DESIGN.md section 6 C03")
add("C04", "property-based testing with closed-form validity predicates (K*, ideal starts, realised overlap, log-region law) + differential vectorised vs iterative + search round-trip",
    "Monotonicity, the log-spacing law in the unclamped region, the averaging formula with the N-L+1 cap, even spreading of starts, the realised overlap, "
    "the 10% bin-count agreement and the forced-bin-count contract are executable predicates over generated configurations (a dedicated generator "
    "guarantees >=300 plans with a sizeable log region per quick run).",
    "Either tie rule is accepted for rounding K; forced-count searches limited to N<=3000; the vectorised scheduler's forced search only in the thorough tier (cost).",
    "DESIGN.md section 6 C04")

add("C05", "property-based differential testing of the public API against a direct-DFT reference on the reported plan + metamorphic band restriction",
    "Every (sampled) bin of generated full analyses, single-bin requests by L and by fres, and band-restricted analyses is recomputed by the reference "
    "estimator from the plan the result reports (f, L, D) and the window rebuilt from its definition; band results must equal the masked unrestricted "
    "results field by field; empty bands must raise.",
    "numba and numpy backends (CUDA is exercised in C01/C07/C08); flat-top windows unreachable on the pinned tree (empty win_dict).",
    "DESIGN.md section 6 C05")

add("C06", "property-based testing: analytic oracle (A^2/2 for a sinusoid, closed-form ENBW) + metamorphic scaling relations (amplitude c, sampling-rate relabelling a)",
    "Sinusoids over the whole (A, phase, fractional bin, L, psll, order, backend) domain must give ps=A^2/2 within the image-lobe leakage bound 4*10^(-P/20); "
    "ENBW/ps/asd identities are checked for every window; amplitude scaling and sampling-rate relabelling are metamorphic relations on arbitrary records "
    "within the rounding budget (power-of-two relabelling: rtol 1e-12 and an unchanged plan).",
    "Orders 1,2: sinusoid 1.5 bins further from 0/Nyquist than the main lobe (oracle correction recorded in DESIGN.md).",
    "DESIGN.md section 6 C06")
add("C07", "property-based testing with a rigorous per-bin Cauchy-Schwarz bound computed by a reference DFT (delay) and exact algebra (gain); differential across 3 backends",
    "For y=g*x the estimated transfer function must equal g (coherence 1) within the rounding budget at every powered bin; for a d-sample delay "
    "|Hxy*exp(+i w d)-1| is bounded by the data-derived edge-effect term B at every bin, which pins the sign of the phase wherever |sin(w d)|>=0.5 and B<=0.25; "
    "numba, numpy and CUDA(simulator) must agree.",
    "CUDA via simulator with small plans (cost ~1 s per analysis); bounded N (6e3 quick / 6e4 thorough).",
    "DESIGN.md section 6 C07")

add("C08", "metamorphic property-based testing (add a polynomial trend) + differential against a least-squares-detrend reference DFT; 3 backends",
    "Adding a polynomial of degree <= order to either channel must leave XX, YY, XY, M2 unchanged within the rounding budget at the scale of the trend, for full and "
    "single-bin analyses on all backends; the trended analysis must equal the reference estimator with an order-p least-squares detrend, so a degree p+1 trend (or any "
    "offset at order -1) changes the estimate exactly as the definition says.",
    "Invariance is relative to the size of the added trend (as the property states); CUDA through the simulator on small plans.",
    "DESIGN.md section 6 C08")
add("C09", "property-based testing of algebraic identities and metamorphic channel swap / channel removal",
    "Bounds (0<=coh<=1, Cauchy-Schwarz), coherence 1 for single-segment bins and linearly dependent channels, swap symmetry, auto-density alone vs in a pair, "
    "GyyCx+GyyRx=Gyy and GyySx=Gyy(1-coh) are asserted bin by bin on generated two-channel analyses whose relation kinds include complex-valued partial coherence "
    "(quota) and degenerate channels (zero, constant, identical).",
    "Tolerances: 1e-9 relative for identities that involve cancellation, rounding budget for kernel-level differences.",
    "DESIGN.md section 6 C09")
add("C10", "property-based testing against textbook formulas on synthetic results spanning the whole (g2, n, magnitude) domain + fixed-seed Monte-Carlo grid",
    "All deviation/error attributes are compared (rtol 1e-12) with the Bendat-Piersol expressions typed from the property text on results constructed through the "
    "public SpectrumResult constructor (g2 down to 1e-12 and up to exactly 1, n from 1 to 1e6) and on real analyses; scaling with n, the phase/magnitude error "
    "ordering and limits are checked; a 12-cell Monte-Carlo grid compares predicted and observed scatter.",
    "The statistical clause cannot see a formula error below ~15% of the predicted scatter; the deterministic part is exact.",
    "DESIGN.md section 6 C10")
add("C11", "property-based differential testing against per-segment reference DFT products + fixed-seed statistical grid",
    "XY_emp_var, XY_emp_dev, Gxx/Gxy_emp_dev and XY_M2 are recomputed from the per-segment cross products of the reference DFT on the reported segmentation "
    "(population variance / K with a budget proportional to the scatter, zero for K=1, non-negative, unit conversion 2/(fs*sum w^2)), including nearly identical segments and segments whose products cancel exactly in the mean; for white Gaussian records with 4000 independent segments the empirical "
    "and analytic deviations must agree within 15%.",
    "Statistical clause: fixed-seed ensembles, ~6 sigma tolerance.",
    "DESIGN.md section 6 C11")

add("C12", "property-based testing with an analytic leakage bound: quadrature-pair decomposition (sign-convention independent) and real-sinusoid power ratios",
    "For generated (P, L, N, sinusoid bin, analysis offsets concentrated on the first side lobes, near DC/Nyquist) the response beyond the main lobe must be at "
    "least P-1 dB below the on-frequency response, measured through compute_single_bin (by L and by a non-integer fs/fres; orders -1..2), through every bin of full plans (compute()) and on records long enough for segments beyond 2^16 samples at P=195..200; the "
    "quadrature pair isolates exp(+-i theta) so no image-term allowance is needed.",
    "Premise: the specified window's own peak side lobe is within 0.94 dB of P (scan in DESIGN.md); bounded L<=8192 (quick) / 32768 (thorough).",
    "DESIGN.md section 6 C12")
add("C13", "property-based testing: metamorphic (zero-fill, layout/dtype change), byte-level before/after comparison of the caller's buffers, finiteness validity predicate, anchored to a reference DFT",
    "Non-finite samples must act as zeros and the caller's buffers (bytes, strides, flags) must be untouched for every layout/dtype; results must agree across "
    "layouts and with the direct-DFT reference on the zero-filled float64 values; for finite inputs including zero and constant channels every listed quantity is finite.",
    "N>=8 (2xN vs Nx2 unambiguous); integer/low-precision dtypes carry exactly representable values.",
    "DESIGN.md section 6 C13")

add("C20", "property-based testing with a relation-table oracle + Hypothesis RuleBasedStateMachine over read/copy/deepcopy/pickle/export/interpolate histories against a fresh-result model",
    "Every derived attribute is compared with its documented function of the base estimates (rtol 1e-12) on generated results of all kinds (auto/cross, full/single-bin, "
    "uniform-K, band, synthetic); the None tables, dir() evaluation, get_measurement (grid, interpolation of re/im, clamping, scalar/array) and to_dataframe (index, exact "
    "column set and values) are validity predicates; a state machine interleaves reads, copies, pickles, exports and interpolations on a pool of results and requires every "
    "value read from any object to equal the value a fresh result gives.",
    "Guarded divisions (value 0 where the denominator vanishes) are taken as documented behaviour; pickling only for name-importable window/scheduler.",
    "DESIGN.md section 6 C20")

add("C17", "model-based stateful testing (Hypothesis RuleBasedStateMachine) of request histories against a single-request model, a same-seed twin and a scipy.signal.lfilter reference cascade",
    "Each run consumes a generator of a drawn class and parameter set through a drawn history of get_series(n) calls (sizes 0 and 1 heavily weighted) or get_sample runs "
    "crossing the prefetch buffer; after every step the concatenated stream must equal a fresh instance's single request, the same-seed twin, and (coloured noise) the "
    "section-by-section lfilter cascade on the same white stream including the discarded settling prefix.",
    "One access mode per run (mixing get_sample and get_series is not claimed); streams up to 3e4 samples; fmin>=fs/2000 so that settling is cheap.",
    "DESIGN.md section 6 C17")

add("C18", "property-based testing against an analytic oracle (frequency response of the generator's coefficient arrays), metamorphic seed-fixed scaling, and exhaustive-length DFT round trips",
    "For generated (alpha, fs, fmin, fmax) the analytic two-sided density of the shaping cascade must equal f^-alpha within 1 dB on 300 points between the corners (and 1 at 1 Hz); "
    "white noise variance and its exact scaling with psd and fs at a fixed seed; fftnoise for every length 2..130 and generated magnitude vectors must return a real series "
    "with exactly the prescribed DFT magnitudes and Hermitian symmetry; band-limited noise has unit magnitude inside and nothing outside its band.",
    "Corners excluded by a factor 4 (density is -3 dB at a corner by construction); the time-domain filtering itself is pinned by C17's reference cascade.",
    "DESIGN.md section 6 C18")

add("C19", "property-based testing with algebraic oracles (orthogonality to a Legendre basis, annihilation, idempotence), a trapezoid reference model with additivity/monotonicity metamorphisms, and a fixed-seed Parseval grid",
    "polynomial_detrend is checked against the defining properties of a least-squares polynomial residual for all orders 0..5 and lengths down to 1; df_detrend against "
    "column-wise application and non-interference; integral_rms against sqrt(trapezoid(asd^2)) on the in-band grid points with additivity over adjacent bands and "
    "monotonicity under nesting; SpectrumResult.get_rms against integral_rms (also reversed bands); full-band RMS against std(x) for white and coloured records.",
    "Parseval clause statistical (6% tolerance, measured 2%).",
    "DESIGN.md section 6 C19")

add("C16", "exhaustive enumeration over all odd orders against exact rational arithmetic + property-based differential testing against an independent per-sample Lagrange evaluation; metamorphic (polynomial reproduction, path agreement)",
    "lagrange_taps is compared with exact Fraction-arithmetic Lagrange weights for every odd order 1..111 (exhaustive in the order); timeshift is compared at every interior "
    "output with a per-sample evaluation using independently computed weights for generated records, orders, constant shifts (fractional, integer, negative, beyond the "
    "record, 1e-12 from integers) and per-sample shift vectors (incl. out of range: no exception); polynomials of degree<=order are reproduced; integer shifts are pure "
    "displacements with end values held; both code paths agree; df_timeshift is checked against timeshift(column, seconds*fs) with selection/suffix/inplace/truncate semantics.",
    "Interior = whole stencil inside the record (edge behaviour beyond the end-value hold of integer constant shifts is not specified by the property).",
    "DESIGN.md section 6 C16")

add("C14", "schedule-configuration sweep (threads x chunk sizes x repetitions) against a single-thread baseline + Hypothesis RuleBasedStateMachine over analyzer call histories + generated attribute-access permutations",
    "The same analysis is repeated under drawn (thread count, parallel chunk size) pairs and must reproduce the 1-thread baseline; a state machine interleaves plan(), compute(), "
    "single-bin requests, thread/chunk changes and attribute reads on one analyzer (both CPU backends, also analyzers with a forced bin count) with invariants on the cached plan, on stored results and against fresh analyses; "
    "fresh results are read in drawn permutations of all attribute names and compared with the canonical order.",
    "Only the configuration of the schedule is controlled, not the interleaving: a race needing a specific interleaving may be missed (a lost-update race injected by "
    "the self-test is caught within the quick budget).",
    "DESIGN.md section 6 C14")
add("C15", "property-based testing with metamorphic relations (permutation, invertible re-mixing), differential analytic-vs-numeric solver, and an independent least-squares reference built from pairwise spectra",
    "For generated q-input systems with known mixing, delays and noise the residual must lie in [0, output], vanish for exact static combinations, be invariant under input "
    "permutation and re-mixing, agree between the symbolic and the numeric solver and with S00 - s^H A^-1 s recomputed by the harness; for q=1 SISO == MISO == sqrt(Gyy(1-coh)) "
    "including delayed (complex) couplings.",
    "Bins with K>q (bounds) / K>=2q+2 (comparisons at 1e-5..1e-6 of the output ASD); q<=3 analytic in the quick tier (sympy cost), 4 in the thorough tier.",
    "DESIGN.md section 6 C15")

MANIFEST = {
    "version": 1,
    "setup_cmd": "/venv/bin/python -m harness.setup",
    "hooks": {
        "guard": "SPECKIT_VERIF",
        "enable": "no source hooks are needed: checks import /repo/speckit from the working tree (PYTHONPATH=/repo) and observe "
                  "public return values; CUDA kernels run under NUMBA_ENABLE_CUDASIM=1 in a child process",
        "baseline_off_cmd": "cd /repo && /venv/bin/python -m pytest -ra -q -p no:cacheprovider --timeout=900 --continue-on-collection-errors",
        "source_commits": [],
        "add_only": True,
    },
    "engines": [
        {"name": "harness", "path": "harness/", "serves_properties": sorted(CHECKS),
         "kind_free_text": "Hypothesis 6.168 strategies / RuleBasedStateMachines + exhaustive grids, one worker process per shard, "
                           "explicit reference-model oracles, shrunk JSON replay files"},
    ],
    "checks": [],
    "notes": "All checks: ./check <ID> --tier quick|thorough; VERIF_SEED honoured; exit 0/1/2 = held / VIOLATION / harness problem. "
             "Genuine defects found on the pinned tree were repaired by 'fix:' commits in /repo (see KNOWN_FINDINGS.txt, DESIGN.md section 7).",
    "not_applicable": [],
}

ALL = ["C%02d" % i for i in range(1, 21)]
for pid in ALL:
    if pid in CHECKS and os.path.exists(os.path.join(HERE, "harness", "props", pid.lower() + ".py")):
        tech, text, note, ref = CHECKS[pid]
        MANIFEST["checks"].append({
            "property_id": pid,
            "quick_cmd": "./check %s --tier quick" % pid,
            "thorough_cmd": "./check %s --tier thorough" % pid,
            "evidence_file": "evidence/%s.json" % pid,
            "replay_cmd_template": "./check %s --replay {path}" % pid,
            "engine": "harness",
            "level_claimed": {"category": "exploration", "text": text, "design_ref": ref},
            "level_note": note,
            "technique": tech,
        })
    else:
        MANIFEST["not_applicable"].append({
            "property_id": pid,
            "reason": "check not built yet in this session (the technique applies; see DESIGN.md section 6) - not claimed until its check exists",
        })

with open(os.path.join(HERE, "MANIFEST.json"), "w") as fh:
    json.dump(MANIFEST, fh, indent=1)
print("MANIFEST.json: %d checks, %d not claimed" % (len(MANIFEST["checks"]), len(MANIFEST["not_applicable"])))
