#!/bin/bash
# Applies every stored seeded change (seeded/*/patch.diff) to /repo in turn, runs the quick tier of the target
# property's check, reverts, and writes seeded/REGRESSION.txt (one line per change).  Nothing else may use /repo meanwhile.
cd "$(dirname "$(readlink -f "$0")")/.." || exit 2
export VERIF_EVIDENCE_DIR=$PWD/.cache/evidence-seedtest
out=${REGRESS_OUT:-seeded/REGRESSION.txt}; : > $out.tmp   # (REGRESS_OUT + VERIF_SEED: the same sweep at another seed)
git -C /repo diff --quiet || { echo "/repo not clean"; exit 2; }
for d in seeded/*/; do
  name=$(basename $d); prop=$(python3 -c "import json;m=json.load(open('$d/meta.json'));print(m.get('regress_check', m['property']))")   # (one change breaks a neighbouring property's statement: see DESIGN 11.14)
  git -C /repo apply $PWD/$d/patch.diff || { echo "$name $prop APPLY-FAILED" >> $out.tmp; continue; }
  o=$(./check $prop --tier quick 2>&1); rc=$?
  git -C /repo checkout -- .
  clause=$(echo "$o" | grep -m1 '^  part=' | sed 's/.*"clause": "\([^"]*\)".*/\1/')
  echo "$name $prop exit=$rc ${clause}" | tee -a $out.tmp
done
mv $out.tmp $out
grep -c "exit=1" $out
