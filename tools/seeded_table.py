#!/usr/bin/env python3
"""Prints a markdown table of /verif/seeded/*/meta.json (which checks caught which seeded change)."""
import glob, json, os
HERE = os.path.dirname(os.path.dirname(os.path.abspath(__file__)))
print("| seeded change | property | what it needs to manifest | demo with/without | existing tests | checks run (exit) |")
print("|---|---|---|---|---|---|")
for d in sorted(p for p in glob.glob(os.path.join(HERE, "seeded", "*")) if os.path.isdir(p)):
    m = json.load(open(os.path.join(d, "meta.json")))
    c = m.get("confirmed_by_verifier", {})
    runs = ", ".join("%s=%s" % (r["check"], {0: "miss", 1: "CAUGHT", 2: "error"}.get(r["exit"], r["exit"])) for r in c.get("checks_run_against_change", []))
    first = m.get("first_run_before_strengthening")
    if first:
        runs = "FIRST RUN: " + ", ".join("%s=%s" % (k, v) for k, v in first.items() if k != "reason") + " ; after strengthening: " + runs
    extra = m.get("rerun_after_strengthening")
    if extra:
        runs += " ; after strengthening: " + ", ".join("%s=%s" % (k, v) for k, v in extra.items())
    need = (m.get("needs_to_manifest") or "")[:220].replace("|", "/").replace("\n", " ")
    print("| %s | %s | %s | %s/%s | %s | %s |" % (os.path.basename(d), m.get("property"), need, c.get("demo_exit_with_change"), c.get("demo_exit_without_change"),
                                         (c.get("existing_tests_with_change") or {}).get("summary", "")[:24], runs))
